import zipfile
NS='http://schemas.openxmlformats.org/spreadsheetml/2006/main'
RNS='http://schemas.openxmlformats.org/officeDocument/2006/relationships'
def build(path, p='', relp='r', sheet_target='worksheets/sheet1.xml', sheet_part='xl/worksheets/sheet1.xml', sst_part='xl/sharedStrings.xml',
          wb_part='xl/workbook.xml', rels_part='xl/_rels/workbook.xml.rels', comp=zipfile.ZIP_STORED, ws='', dim=None, implicit=False, d1904=False, decl=True, bom=False, extra=True):
    q=(p+':') if p else ''
    xmlns=('xmlns:%s="%s"'%(p,NS)) if p else ('xmlns="%s"'%NS)
    hdr='<?xml version="1.0" encoding="UTF-8" standalone="yes"?>\n' if decl else ''
    if bom: hdr='﻿'+hdr
    wb=hdr+'<%sworkbook %s xmlns:%s="%s">%s<%sworkbookPr%s/>%s<%ssheets>%s<%ssheet name="S1" sheetId="1" %s:id="rId1"/>%s</%ssheets>%s</%sworkbook>'%(q,xmlns,relp,RNS,ws,q,' date1904="1"' if d1904 else '',ws,q,ws,q,relp,ws,q,ws,q)
    rels=hdr+'<Relationships xmlns="http://schemas.openxmlformats.org/package/2006/relationships"><Relationship Id="rId1" Type="%s/worksheet" Target="%s"/><Relationship Id="rId2" Type="%s/sharedStrings" Target="sharedStrings.xml"/><Relationship Id="rId3" Type="%s/styles" Target="styles.xml"/></Relationships>'%(RNS,sheet_target,RNS,RNS)
    sst=hdr+'<%ssst %s count="2" uniqueCount="2">%s<%ssi>%s<%st>alpha</%st>%s</%ssi>%s<%ssi><%sr><%srPr><%sb/></%srPr><%st xml:space="preserve">be </%st></%sr><%sr><%st>ta</%st></%sr></%ssi>%s</%ssst>'%(q,xmlns,ws,q,ws,q,q,ws,q,ws,q,q,q,q,q,q,q,q,q,q,q,q,q,ws,q)
    styles=hdr+'<%sstyleSheet %s><%snumFmts count="1"><%snumFmt numFmtId="164" formatCode="yyyy\\-mm"/></%snumFmts><%scellXfs count="2"><%sxf numFmtId="0"/><%sxf numFmtId="164"/></%scellXfs></%sstyleSheet>'%(q,xmlns,q,q,q,q,q,q,q,q)
    def c(ref,attrs,inner): return '<%sc%s%s>%s</%sc>'%(q,'' if implicit else ' r="%s"'%ref, attrs, inner, q)
    def v(x): return '<%sv>%s</%sv>'%(q,x,q)
    row1=c('B2',' t="s"',v(0))+c('C2',' t="s"',v(1))+c('D2','',v('3.5'))+c('E2',' t="b"',v(1))
    row2=c('B3',' t="inlineStr"','<%sis><%st>in</%st></%sis>'%(q,q,q,q))+c('C3',' t="e"',v('#N/A'))+c('D3',' s="1"',v('44000'))+c('E3',' t="str"','<%sf>1+1</%sf>'%(q,q)+v('x'))
    rows='<%srow r="2">%s%s</%srow>%s<%srow r="3">%s%s</%srow>'%(q,ws,row1,q,ws,q,ws,row2,q)
    if implicit:
        # implicit positions: need leading cells to keep positions: start at A1 instead
        rows='<%srow>%s</%srow><%srow>%s</%srow>'%(q,row1,q,q,row2,q)
    pre=('<%ssheetPr/><%ssheetViews><%ssheetView workbookViewId="0"/></%ssheetViews><%scols><%scol min="1" max="3" width="9"/></%scols>'%(q,q,q,q,q,q,q)) if extra else ''
    d=('<%sdimension ref="%s"/>'%(q,dim)) if dim else ''
    sh=hdr+'<%sworksheet %s>%s%s%s<%ssheetData>%s%s</%ssheetData>%s<%spageMargins left="0.7" right="0.7" top="0.75" bottom="0.75" header="0.3" footer="0.3"/></%sworksheet>'%(q,xmlns,d,pre,ws,q,ws,rows,q,ws,q,q)
    z=zipfile.ZipFile(path,'w',comp)
    z.writestr('[Content_Types].xml','<Types xmlns="http://schemas.openxmlformats.org/package/2006/content-types"/>')
    z.writestr(wb_part,wb); z.writestr(rels_part,rels); z.writestr(sst_part,sst); z.writestr('xl/styles.xml',styles); z.writestr(sheet_part,sh)
    z.close()
o='/tmp/scratch/files/'
build(o+'v_base.xlsx')
build(o+'v_prefix.xlsx',p='x')
build(o+'v_relprefix.xlsx',relp='rel')
build(o+'v_abs_target.xlsx',sheet_target='/xl/worksheets/sheet1.xml')
build(o+'v_case.xlsx',sheet_part='xl/Worksheets/Sheet1.XML',sst_part='xl/SharedStrings.xml')
build(o+'v_case_wb.xlsx',wb_part='xl/Workbook.xml')
build(o+'v_deflate.xlsx',comp=zipfile.ZIP_DEFLATED)
build(o+'v_ws.xlsx',ws='\n   ')
build(o+'v_dim_small.xlsx',dim='B2')
build(o+'v_dim_big.xlsx',dim='A1:XFD1048576')
build(o+'v_implicit.xlsx',implicit=True)
build(o+'v_1904.xlsx',d1904=True)
build(o+'v_1904_prefix.xlsx',d1904=True,p='x')
build(o+'v_nodecl.xlsx',decl=False)
build(o+'v_bom.xlsx',bom=True)
