import random, struct, subprocess, sys, os, shutil
src=open('/tmp/scratch/gen.py').read().split("out='/tmp/scratch/files/'")[0]
exec(src)
random.seed(int(sys.argv[1]) if len(sys.argv)>1 else 1)
def cfb_perm(streams, ver=3, shuffle=True, nfree=0):
    ss = 512 if ver==3 else 4096
    mini=[(n,d) for n,d in streams if len(d)<4096]; reg=[(n,d) for n,d in streams if len(d)>=4096]
    ministream=b''; minifat=[]; mini_start={}
    # mini sectors also permuted
    msecs=[]; 
    for n,d in mini:
        if len(d)==0: mini_start[n]=EOC; continue
        ns=(len(d)+63)//64; first=len(msecs)
        mini_start[n]=first
        for i in range(ns): msecs.append(d[i*64:(i+1)*64].ljust(64,b'\0')); minifat.append(first+i+1 if i<ns-1 else EOC)
    if shuffle and msecs:
        perm=list(range(len(msecs))); random.shuffle(perm)
        nm=[None]*len(msecs); nf=[None]*len(msecs)
        for i in range(len(msecs)):
            nm[perm[i]]=msecs[i]; nf[perm[i]]=perm[minifat[i]] if minifat[i]<0xFFFFFFF0 else minifat[i]
        msecs,minifat=nm,nf
        for n in mini_start:
            if mini_start[n]!=EOC: mini_start[n]=perm[mini_start[n]]
    ministream=b''.join(msecs)
    sectors=[]; fat=[]
    def alloc_chain(data):
        if len(data)==0: return EOC
        n=(len(data)+ss-1)//ss; first=len(sectors)
        for i in range(n): sectors.append(data[i*ss:(i+1)*ss].ljust(ss,b'\0')); fat.append(first+i+1 if i<n-1 else EOC)
        return first
    reg_start={n:alloc_chain(d) for n,d in reg}
    ms_start=alloc_chain(ministream)
    mf_bytes=b''.join(struct.pack('<I',x) for x in minifat)
    if mf_bytes: mf_bytes=mf_bytes.ljust(((len(mf_bytes)+ss-1)//ss)*ss,b'\xff')
    mf_start=alloc_chain(mf_bytes); mf_nsec=len(mf_bytes)//ss
    def dirent(name,typ,start,size,child=FREE,left=FREE,right=FREE):
        nm=name.encode('utf-16le')+b'\0\0'
        e=nm.ljust(64,b'\0')+struct.pack('<H',len(nm))+bytes([typ,1])+struct.pack('<III',left,right,child)+b'\0'*36+struct.pack('<I',start)+struct.pack('<Q',size)
        assert len(e)==128; return e
    order=list(streams)
    if shuffle: random.shuffle(order)
    per=ss//128
    # placeholder dir to know nsec
    ndir=(1+len(order)+per-1)//per
    dir_start=len(sectors)
    for i in range(ndir): sectors.append(None); fat.append(dir_start+i+1 if i<ndir-1 else EOC)
    for _ in range(nfree): sectors.append(b'\xAA'*ss); fat.append(FREE)
    epf=ss//4; nfat=1
    while (len(fat)+nfat+epf-1)//epf>nfat: nfat+=1
    fat_first=len(sectors)
    for i in range(nfat): sectors.append(None); fat.append(FATSECT)
    N=len(sectors)
    perm=list(range(N))
    if shuffle: random.shuffle(perm)
    P=lambda x: perm[x] if x<0xFFFFFFF0 else x
    ents=[dirent('Root Entry',5,P(ms_start),len(ministream),child=1 if streams else FREE)]
    for i,(n,d) in enumerate(order):
        st=P(reg_start[n]) if n in reg_start else mini_start[n]
        ents.append(dirent(n,2,st,len(d),right=(i+2 if i+1<len(order) else FREE)))
    while len(ents)%per: ents.append(b'\0'*68+struct.pack('<III',FREE,FREE,FREE)+b'\0'*48)
    dirb=b''.join(ents)
    for i in range(ndir): sectors[dir_start+i]=dirb[i*ss:(i+1)*ss]
    nfatv=[None]*N; nsec=[None]*N
    for i in range(N): nfatv[perm[i]]=P(fat[i])
    fatb=b''.join(struct.pack('<I',x) for x in nfatv).ljust(nfat*ss,b'\xff')
    for i in range(nfat): sectors[fat_first+i]=fatb[i*ss:(i+1)*ss]
    for i in range(N): nsec[perm[i]]=sectors[i]
    h=bytes.fromhex('D0CF11E0A1B11AE1')+b'\0'*16+struct.pack('<HHHHH',0x3E,ver,0xFFFE,9 if ver==3 else 12,6)+b'\0'*6
    h+=struct.pack('<IIIII',ndir if ver==4 else 0,nfat,P(dir_start),0,4096)+struct.pack('<IIII',P(mf_start) if mf_nsec else EOC,mf_nsec,EOC,0)
    h+=b''.join(struct.pack('<I',x) for x in [P(fat_first+i) for i in range(nfat)]+[FREE]*(109-nfat))
    return h.ljust(ss,b'\0')+b''.join(nsec)
def wbk(ncells): return workbook([('S',b''.join(number(i,0,0,float(i)+0.5) for i in range(ncells)))])
D='/tmp/scratch/files/cfb'; shutil.rmtree(D,ignore_errors=True); os.makedirs(D)
cases={}; n=0
for ncells in [1,50,150,190,200,210,400,1500,6000]:
    w=wbk(ncells)
    for ver in (3,4):
        for shuffle in (False,True):
            for nfree in (0,3):
                for extra in (0,2):
                    streams=[('Workbook',w)]+[('X%d'%k, bytes(random.randrange(256) for _ in range(random.choice([0,1,63,64,65,4095,4096,4097,9000])))) for k in range(extra)]
                    for rep in range(2 if shuffle else 1):
                        p='%s/%04d.xls'%(D,n); n+=1
                        open(p,'wb').write(cfb_perm(streams,ver,shuffle,nfree))
                        cases[p]=(ncells,len(w),ver,shuffle,nfree,extra)
files=sorted(cases)
out=subprocess.run(['/tmp/scratch/target/debug/scratch2']+files,stdout=subprocess.PIPE,text=True).stdout
res={}
for line in out.splitlines():
    p,r=line.split('\t'); ncells,wl,ver,sh,nf,ex=cases[p]
    exp='n=%d sum=%.1f'%(ncells,sum(i+0.5 for i in range(ncells)))
    key=(ver,'mini' if wl<4096 else 'reg',sh, r if r!=exp else 'OK')
    res.setdefault(key,0); res[key]+=1
for k,v in sorted(res.items(),key=str): print(k,v)
