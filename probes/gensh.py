import random, zipfile, subprocess, sys, os, shutil
from xml.sax.saxutils import escape
random.seed(int(sys.argv[1]) if len(sys.argv)>1 else 1)
D='/tmp/scratch/files/sh'; shutil.rmtree(D,ignore_errors=True); os.makedirs(D)
def colname(c):
    s=''; c+=1
    while c: c,r=divmod(c-1,26); s=chr(65+r)+s
    return s
# tokens: ('ref',row,col,rabs,cabs) | ('lit',text,kind)
def render(tokens,dr,dc):
    o=''
    for t in tokens:
        if t[0]=='ref':
            _,r,c,ra,ca,pre=t
            rr=r if ra else r+dr; cc=c if ca else c+dc
            o+=pre+('$' if ca else '')+colname(cc)+('$' if ra else '')+str(rr+1)
        else: o+=t[1]
    return o
def rnd_ref(pre=''):
    return ('ref',random.randint(0,30),random.randint(0,40),random.random()<0.3,random.random()<0.3,pre)
LITS=[('+','op'),('*','op'),(',','op'),('(','op'),(')','op'),('SUM(','fn'),('LOG10(','fn_digit'),('ATAN2(','fn_digit'),('"A1"','str_cell'),('"x y"','str'),('1.5','num'),('100','num'),('1E+20','num_e'),('TRUE','bool'),
      ('TaxRate','name'),('Q1_total','name_cellprefix'),("'My Sheet'!",'sheetq'),('Sheet2!','sheet_digit'),("'Q1 data'!",'sheetq_cell'),(':','range')]
def rnd_formula():
    toks=[]; n=random.randint(1,4)
    for k in range(n):
        if k: toks.append(('lit',)+random.choice([l for l in LITS if l[1]=='op'][:3]))
        ch=random.random()
        if ch<0.45: toks.append(rnd_ref())
        elif ch<0.55: a=rnd_ref(); b=rnd_ref(); toks+= [a,('lit',':','range'),b]
        elif ch<0.65:
            l=random.choice([l for l in LITS if l[1] in('sheetq','sheet_digit','sheetq_cell')]); toks.append(('lit',)+l); toks.append(rnd_ref())
        elif ch<0.8:
            l=random.choice([l for l in LITS if l[1] in('fn','fn_digit')]); toks.append(('lit',)+l); toks.append(rnd_ref()); toks.append(('lit',')','op'))
        else:
            l=random.choice([l for l in LITS if l[1] in('str_cell','str','num','num_e','bool','name','name_cellprefix')]); toks.append(('lit',)+l)
    return toks
NS='http://schemas.openxmlformats.org/spreadsheetml/2006/main'
def build(path,master,toks,h,w):
    mr,mc=master
    rows=''
    for r in range(mr,mr+h):
        cells=''
        for c in range(mc,mc+w):
            ref=colname(c)+str(r+1)
            if (r,c)==master:
                f='<f t="shared" ref="%s:%s" si="0">%s</f>'%(ref,colname(mc+w-1)+str(mr+h),escape(render(toks,0,0)))
            else: f='<f t="shared" si="0"/>'
            cells+='<c r="%s">%s<v>1</v></c>'%(ref,f)
        rows+='<row r="%d">%s</row>'%(r+1,cells)
    sh='<worksheet xmlns="%s"><sheetData>%s</sheetData></worksheet>'%(NS,rows)
    wb='<workbook xmlns="%s" xmlns:r="http://schemas.openxmlformats.org/officeDocument/2006/relationships"><sheets><sheet name="S1" sheetId="1" r:id="rId1"/></sheets></workbook>'%NS
    rels='<Relationships xmlns="http://schemas.openxmlformats.org/package/2006/relationships"><Relationship Id="rId1" Type="http://schemas.openxmlformats.org/officeDocument/2006/relationships/worksheet" Target="worksheets/sheet1.xml"/></Relationships>'
    z=zipfile.ZipFile(path,'w'); z.writestr('[Content_Types].xml','<Types xmlns="http://schemas.openxmlformats.org/package/2006/content-types"/>'); z.writestr('xl/workbook.xml',wb); z.writestr('xl/_rels/workbook.xml.rels',rels); z.writestr('xl/worksheets/sheet1.xml',sh); z.close()
cases={}
N=int(sys.argv[2]) if len(sys.argv)>2 else 600
for n in range(N):
    toks=rnd_formula(); shape=random.choice(['col','row','block'])
    h,w={'col':(random.randint(2,4),1),'row':(1,random.randint(2,4)),'block':(random.randint(2,3),random.randint(2,3))}[shape]
    master=(random.randint(0,5),random.randint(0,5))
    p='%s/%04d.xlsx'%(D,n); build(p,master,toks,h,w); cases[p]=(toks,shape,h,w,master)
files=sorted(cases)
out=subprocess.run(['/tmp/scratch/target/debug/scratch']+files,stdout=subprocess.PIPE,text=True).stdout
from collections import Counter
cls=Counter(); ex={}
for line in out.splitlines():
    p,r=line.split('\t',1); toks,shape,h,w,(mr,mc)=cases[p]
    got={}
    if r and not r.startswith(('ERR','PANIC')):
        for item in r.split('\x02'):
            k,v=item.split('\x01'); got[tuple(map(int,k.split(',')))]=v
    for dr in range(h):
        for dc in range(w):
            e=render(toks,dr,dc); g=got.get((mr+dr,mc+dc))
            if g==e: continue
            if g is None: key=(shape,'missing','dc>0' if dc>0 else 'dr>0'); 
            else:
                # culprit isolation over tokens: which single token, translated alone, differs?
                culprits=set()
                # compare token-wise: find tokens whose expected rendering is not in g at right place: approximate by per-token check
                for t in toks:
                    if t[0]=='ref':
                        et=render([t],dr,dc)
                        if et not in g: culprits.add('ref:%s%s'%('R$' if t[3] else 'r',('C$' if t[4] else 'c'))+(':dc' if dc else '')+(':dr' if dr else ''))
                    else:
                        if t[1] not in g: culprits.add('lit:'+t[2])
                key=(shape,'text',tuple(sorted(culprits)))
            cls[key]+=1; ex.setdefault(key,(e,g))
print('files',len(files))
for k,v in sorted(cls.items(),key=lambda kv:-kv[1])[:40]: print(v,k,ex[k])
