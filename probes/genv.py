import random, subprocess, sys, struct
random.seed(int(sys.argv[1]) if len(sys.argv)>1 else 1)
def bitcount(pos):  # pos = decompressed bytes so far in chunk (>=1 when a copy token is possible)
    b=4
    while (1<<b) < pos: b+=1
    return max(b,4)
def compress_chunk(data, strategy):
    """data: <=4096 bytes. returns chunk bytes (header+data)"""
    if strategy=='raw' and len(data)==4096:
        return struct.pack('<H', 0x3000|4095)+data
    out=bytearray(); i=0
    while i<len(data):
        flags=0; toks=bytearray(); nb=0
        while nb<8 and i<len(data):
            tok=None
            if strategy in('greedy','random') and i>0:
                bc=bitcount(i); maxlen=(0xFFFF>>bc)+3; maxoff=1<<bc
                # candidate matches
                best=None
                lo=max(0,i-maxoff)
                cands=[]
                for st in (range(lo,i) if i-lo<=64 else random.sample(range(lo,i),64)):
                    l=0
                    while i+l<len(data) and l<maxlen and data[st+l]==data[i+l]: l+=1
                    if l>=3: cands.append((l,i-st))
                if cands:
                    if strategy=='greedy': l,off=max(cands)
                    else:
                        l,off=random.choice(cands); l=random.randint(3,l)
                    tok=(l,off,bc)
                if strategy=='random' and tok and random.random()<0.3: tok=None
            if tok:
                l,off,bc=tok
                t=((off-1)<<(16-bc))|(l-3)
                toks+=struct.pack('<H',t); flags|=1<<nb; i+=l
            else:
                toks.append(data[i]); i+=1
            nb+=1
        out.append(flags); out+=toks
    assert len(out)<=4096+512
    if len(out)>4096: return None
    return struct.pack('<H',0xB000|(len(out)-1))+bytes(out)
def compress(data,strategy):
    o=b'\x01'
    for k in range(0,len(data),4096):
        ch=data[k:k+4096]
        st=strategy if strategy!='mix' else random.choice(['literal','greedy','random','raw'])
        c=compress_chunk(ch,st)
        if c is None: c=compress_chunk(ch,'raw') if len(ch)==4096 else compress_chunk(ch,'greedy')
        if c is None: return None
        o+=c
    return o
def source(n,kind):
    if kind=='low': return bytes(random.choice(b'ab') for _ in range(n))
    if kind=='rep': 
        unit=bytes(random.randrange(256) for _ in range(random.randint(1,40)))
        return (unit*(n//len(unit)+1))[:n]
    if kind=='text':
        words=[b'Sub ',b'End Sub\r\n',b'Dim x As Integer\r\n',b'MsgBox "hi"\r\n',b'Attribute VB_Name = ',b'x = x + 1\r\n']
        o=b''
        while len(o)<n: o+=random.choice(words)
        return o[:n]
    return bytes(random.randrange(256) for _ in range(n))
cases=[]
sizes=[1,2,3,16,17,33,100,4095,4096,4097,8192,8193,10000]
for n in sizes:
    for kind in ('low','rep','text','rand'):
        for st in ('literal','greedy','random','mix'):
            for rep in range(2 if n>100 else 3):
                d=source(n,kind)
                if kind=='rand' and st in('literal',) and n>=4096: pass
                try: c=compress(d,st)
                except AssertionError: continue
                if c is None: continue
                cases.append((d,c,n,kind,st))
out=subprocess.run(['/tmp/scratch/target/release/scratch'],input='\n'.join(c.hex() for _,c,_,_,_ in cases)+'\n',stdout=subprocess.PIPE,text=True).stdout.split('\n')
bad={}
for (d,c,n,kind,st),o in zip(cases,out):
    if o!=d.hex(): bad.setdefault((kind,st,'PANIC' if o=='PANIC' else 'ERR' if o.startswith('ERR') else 'VAL'),[]).append((n,len(c)))
print('cases',len(cases),'bad',sum(len(v) for v in bad.values()))
for k,v in bad.items(): print(k,v[:8])
