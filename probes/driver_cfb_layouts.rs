use calamine::*;
use std::io::Cursor;
fn main() {
    std::panic::set_hook(Box::new(|_| {}));
    for p in std::env::args().skip(1) {
        let bytes = std::fs::read(&p).unwrap();
        let r = std::panic::catch_unwind(|| {
            let mut wb: Xls<_> = match open_workbook_from_rs(Cursor::new(bytes)) { Ok(w) => w, Err(e) => return format!("ERR {e:?}") };
            match wb.worksheet_range("S") { Err(e) => format!("ERR {e:?}"), Ok(r) => { let mut n=0; let mut s=0.0; for (i,_j,v) in r.used_cells() { if let Data::Float(f)=v { n+=1; s+=f; assert_eq!(*f, (r.start().unwrap().0 as usize + i) as f64 + 0.5); } } format!("n={} sum={:.1}", n, s) } }
        });
        println!("{p}\t{}", r.unwrap_or_else(|_| "PANIC".into()));
    }
}
