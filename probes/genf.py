import itertools, subprocess, sys, random
# token = (text, kind) ; kind: 'D' date token, 'E' elapsed, 'N' neutral
date=['d','dd','ddd','dddd','m','mm','mmm','yy','yyyy','h','hh','s','ss','AM/PM','A/P','am/pm','D','YYYY','MM','H']
elapsed=['[h]','[hh]','[m]','[mm]','[s]','[ss]','[H]']
neutral=['0','#','?','.',',','%','0.00','#,##0','E+00','@','General',' ','-','/',':','(',')','$','+',
         '"x"','"d"','"Year"','"m s"','""','"a_b"','"c:\\"','"_"','\\d','\\y','\\ ','\\-','_)','_d','_m','* ','*-',
         '[Red]','[Blue]','[Color12]','[>=100]','[<0]','[$-409]','[$€-2]','[$-F800]','[DBNum1]','[$$-409]']
toks=[(t,'D') for t in date]+[(t,'E') for t in elapsed]+[(t,'N') for t in neutral]
def ref(seq):
    kinds=[k for _,k in seq]
    # '/' and ':' alone are neutral
    if 'E' in kinds and 'D' not in kinds: return 'T'
    if 'D' in kinds:
        # duration flavour if an elapsed token precedes... ambiguous: skip mixtures
        if 'E' in kinds: return None
        return 'D'
    return 'O'
cases=[]
for n in (1,2,3):
    for seq in itertools.product(toks,repeat=n):
        r=ref(seq)
        if r is None: continue
        s=''.join(t for t,_ in seq)
        cases.append((s,r,seq))
        if n<=2:
            cases.append((s+';@',r,seq)); cases.append((s+';[Red]-yyyy',r,seq))
print(len(cases),file=sys.stderr)
out=subprocess.run(['/tmp/scratch/target/release/scratch'],input='\n'.join(c[0] for c in cases)+'\n',capture_output=True,text=True).stdout.split('\n')
bad={}
for (s,r,seq),o in zip(cases,out):
    if o!=r:
        # culprit: minimal subset of tokens still failing? record by token set signature: neutral tokens involved
        key=(r,o,tuple(sorted(set(t for t,k in seq if k=='N'))))
        bad.setdefault(key,[]).append(s)
print('mismatch classes',len(bad),'total',sum(len(v) for v in bad.values()))
# aggregate by single neutral token culprit
agg={}
for (r,o,ns),v in bad.items():
    agg.setdefault((r,o,ns),0); agg[(r,o,ns)]+=len(v)
for k,v in sorted(agg.items(),key=lambda kv:-kv[1])[:40]: print(k,v,bad[k][0])
# --- culprit isolation: minimal failing subsequences
def run(strs):
    return subprocess.run(['/tmp/scratch/target/release/scratch'],input='\n'.join(strs)+'\n',capture_output=True,text=True).stdout.split('\n')
fails=[seq for (s,r,seq),o in zip(cases,out) if o!=r and not s.endswith(';@') and not s.endswith('yyyy')]
# iterative: try removing each token
minimal=set()
cur=fails
cache={}
def bad_seq(seq):
    r=ref(seq)
    if r is None: return False
    return cache[seq]!=r
allsubs=set()
for seq in fails:
    for k in range(len(seq)):
        allsubs.add(seq[:k]+seq[k+1:])
    allsubs.add(seq)
allsubs=[s for s in allsubs if s]
res=run([''.join(t for t,_ in s) for s in allsubs])
for s,o in zip(allsubs,res): cache[s]=o
for seq in fails:
    subs=[seq[:k]+seq[k+1:] for k in range(len(seq)) if len(seq)>1]
    if not any(bad_seq(x) for x in subs): minimal.add(tuple(t for t,_ in seq))
print('minimal failing sequences:',len(minimal))
from collections import Counter
c=Counter()
for m in minimal:
    c[tuple('D' if t in date else 'E' if t in elapsed else t for t in m)]+=1
for k,v in sorted(c.items(),key=lambda kv:(len(kv[0]),-kv[1]))[:60]: print(k,v)
