use calamine::*;
use std::io::Cursor;
fn main() {
    std::panic::set_hook(Box::new(|_| {}));
    for p in std::env::args().skip(1) {
        let bytes = std::fs::read(&p).unwrap();
        let r = std::panic::catch_unwind(|| {
            let mut wb: Xls<_> = match open_workbook_from_rs(Cursor::new(bytes)) { Ok(w) => w, Err(e) => return format!("ERR {e:?}") };
            match wb.worksheet_range("S") {
                Err(e) => format!("ERR {e:?}"),
                Ok(r) => { let mut s = String::new(); for (i, _j, v) in r.used_cells() { let st = r.start().unwrap(); if let Data::String(t) = v { s += &format!("{}={:?};", st.0 as usize + i, t.encode_utf16().collect::<Vec<u16>>()); } } s }
            }
        });
        println!("{p}\t{}", r.unwrap_or_else(|_| "PANIC".into()));
    }
}
