import struct, sys
FREE=0xFFFFFFFF; EOC=0xFFFFFFFE; FATSECT=0xFFFFFFFD
def cfb(streams, ver=3, force_regular=False):
    """streams: list of (name, bytes). Returns bytes of a compound file. Sequential layout."""
    ss = 512 if ver==3 else 4096
    # decide mini vs regular
    mini=[]; reg=[]
    for n,d in streams:
        (reg if (len(d)>=4096 or force_regular) else mini).append((n,d))
    # build mini stream
    ministream=b''; minifat=[]; mini_start={}
    for n,d in mini:
        if len(d)==0: mini_start[n]=EOC; continue
        nsec=(len(d)+63)//64
        first=len(ministream)//64
        mini_start[n]=first
        ministream+=d+b'\0'*(nsec*64-len(d))
        for i in range(nsec): minifat.append(first+i+1 if i<nsec-1 else EOC)
    # sectors list: we'll allocate sequentially: [dir sectors][minifat sectors][ministream sectors][regular streams][fat sectors]
    sectors=[]  # list of bytes
    fat=[]
    def alloc_chain(data):
        if len(data)==0: return EOC
        n=(len(data)+ss-1)//ss
        first=len(sectors)
        for i in range(n):
            sectors.append(data[i*ss:(i+1)*ss].ljust(ss,b'\0'))
            fat.append(first+i+1 if i<n-1 else EOC)
        return first
    reg_start={}
    for n,d in reg: reg_start[n]=alloc_chain(d)
    ms_start=alloc_chain(ministream)
    mf_bytes=b''.join(struct.pack('<I',x) for x in minifat)
    mf_bytes=mf_bytes.ljust(((len(mf_bytes)+ss-1)//ss)*ss, b'\xff') if mf_bytes else b''
    mf_start=alloc_chain(mf_bytes)
    mf_nsec=len(mf_bytes)//ss
    # directory
    def dirent(name,typ,start,size,child=FREE,left=FREE,right=FREE):
        nm=name.encode('utf-16le')+b'\0\0'
        e=nm.ljust(64,b'\0')+struct.pack('<H',len(nm))+bytes([typ,1])+struct.pack('<III',left,right,child)+b'\0'*16+b'\0'*4+b'\0'*16
        e+=struct.pack('<I',start)+struct.pack('<Q',size)
        assert len(e)==128
        return e
    ents=[dirent('Root Entry',5,ms_start,len(ministream),child=1 if streams else FREE)]
    allst=[(n,d) for n,d in streams]
    for i,(n,d) in enumerate(allst):
        start = reg_start[n] if n in reg_start else mini_start[n]
        ents.append(dirent(n,2,start,len(d),right=(i+2 if i+1<len(allst) else FREE)))
    per=ss//128
    while len(ents)%per: ents.append(b'\0'*64+struct.pack('<H',0)+bytes([0,0])+struct.pack('<III',FREE,FREE,FREE)+b'\0'*(128-80))
    dir_bytes=b''.join(ents)
    dir_start=alloc_chain(dir_bytes)
    dir_nsec=len(dir_bytes)//ss
    # fat sectors
    epf=ss//4
    nfat=1
    while (len(fat)+nfat+epf-1)//epf>nfat: nfat+=1
    fat_first=len(sectors)
    for i in range(nfat): fat.append(FATSECT); sectors.append(None)
    fatb=b''.join(struct.pack('<I',x) for x in fat).ljust(nfat*ss,b'\xff')
    for i in range(nfat): sectors[fat_first+i]=fatb[i*ss:(i+1)*ss]
    assert nfat<=109
    h=bytes.fromhex('D0CF11E0A1B11AE1')+b'\0'*16+struct.pack('<HHHHH',0x3E,ver,0xFFFE,9 if ver==3 else 12,6)+b'\0'*6
    h+=struct.pack('<I',dir_nsec if ver==4 else 0)+struct.pack('<I',nfat)+struct.pack('<I',dir_start)+struct.pack('<I',0)+struct.pack('<I',4096)
    h+=struct.pack('<I',mf_start if mf_nsec else EOC)+struct.pack('<I',mf_nsec)+struct.pack('<I',EOC)+struct.pack('<I',0)
    difat=[fat_first+i for i in range(nfat)]+[FREE]*(109-nfat)
    h+=b''.join(struct.pack('<I',x) for x in difat)
    assert len(h)==512
    h=h.ljust(ss,b'\0')
    return h+b''.join(sectors)

def rec(t,d=b''): return struct.pack('<HH',t,len(d))+d
def ustr16(s):  # XLUnicodeString (cch u16, flags, chars)
    try: b=s.encode('latin-1'); return struct.pack('<HB',len(s),0)+b
    except: b=s.encode('utf-16le'); return struct.pack('<HB',len(b)//2,1)+b
def ustr8(s):
    b=s.encode('latin-1'); return struct.pack('<BB',len(s),0)+b
BOF_G=rec(0x0809,struct.pack('<HHHHII',0x0600,0x0005,0x0DBB,0x07CC,0,6))
BOF_S=rec(0x0809,struct.pack('<HHHHII',0x0600,0x0010,0x0DBB,0x07CC,0,6))
EOF_=rec(0x000A)
def workbook(sheets, extra_globals=b'', formats=[], xfs=[0], pre=b''):
    """sheets: list of (name, bytes of records)"""
    g=BOF_G+pre+rec(0x0042,struct.pack('<H',1200))+rec(0x0022,struct.pack('<H',0))
    for idx,s in formats: g+=rec(0x041E,struct.pack('<H',idx)+ustr16(s))
    for f in xfs: g+=rec(0x00E0,struct.pack('<HHH',0,f,0)+b'\0'*14)
    # boundsheets need positions: compute
    bs_len=sum(len(rec(0x0085,struct.pack('<IBB',0,0,0)+ustr8(n))) for n,_ in sheets)
    tail=extra_globals+EOF_
    pos=len(g)+bs_len+len(tail)
    bss=b''; body=b''
    for n,r in sheets:
        sh=BOF_S+r+EOF_
        bss+=rec(0x0085,struct.pack('<IBB',pos,0,0)+ustr8(n))
        body+=sh; pos+=len(sh)
    return g+bss+tail+body
def number(r,c,x,v): return rec(0x0203,struct.pack('<HHHd',r,c,x,v))
def formula(r,c,x,val,rgce): return rec(0x0006,struct.pack('<HHH',r,c,x)+struct.pack('<d',val)+struct.pack('<HI',0,0)+struct.pack('<H',len(rgce))+rgce)
def ptgref(r,c,rowrel,colrel,cls=0x44): return bytes([cls])+struct.pack('<HH',r,c|(0x4000 if colrel else 0)|(0x8000 if rowrel else 0))
def ptgarea(r1,r2,c1,c2,rel=True,cls=0x25):
    f=0xC000 if rel else 0
    return bytes([cls])+struct.pack('<HHHH',r1,r2,c1|f,c2|f)
def ptgref3d(ixti,r,c,rel=True): return bytes([0x5A])+struct.pack('<HHH',ixti,r,c|(0xC000 if rel else 0))
def ptgarea3d(ixti,r1,r2,c1,c2,rel=True): f=0xC000 if rel else 0; return bytes([0x3B])+struct.pack('<HHHHH',ixti,r1,r2,c1|f,c2|f)

out='/tmp/scratch/files/'
# 1. plain xls with formulas
supbook=rec(0x01AE,struct.pack('<HH',2,0x0401))
extsheet=rec(0x0017,struct.pack('<H',2)+struct.pack('<Hhh',0,0,0)+struct.pack('<Hhh',0,1,1))
sh1=number(0,0,0,1.5)
sh1+=formula(1,0,0,2.0, ptgref(0,1,True,True))            # B1
sh1+=formula(2,0,0,2.0, ptgref(0,27,False,True))           # AB$1
sh1+=formula(3,0,0,2.0, ptgref(4,2,True,False))            # $C5
sh1+=formula(4,0,0,2.0, ptgarea(0,2,0,1)+bytes([0x22,1])+struct.pack('<H',4))   # SUM(A1:B3)
sh1+=formula(5,0,0,2.0, ptgref3d(1,0,1))                   # Two!B1
sh1+=formula(6,0,0,2.0, ptgarea3d(1,0,1,0,1,rel=False))    # Two!$A$1:$B$2
sh1+=formula(7,0,1,44000.0, ptgref(0,0,True,True))         # date styled formula number
sh1+=number(8,0,1,44000.0)
wb=workbook([('One',sh1),('Two',number(0,0,0,7.0))], extra_globals=supbook+extsheet, formats=[(164,'yyyy-mm-dd')], xfs=[0,164])
open(out+'f_v3.xls','wb').write(cfb([('Workbook',wb.ljust(5000,b'\0') if False else wb)]))
big=workbook([('One',sh1+b''.join(number(10+i,0,0,float(i)) for i in range(400))),('Two',number(0,0,0,7.0))], extra_globals=supbook+extsheet, formats=[(164,'yyyy-mm-dd')], xfs=[0,164])
print(len(wb), len(big))
open(out+'big_v3.xls','wb').write(cfb([('Workbook',big)]))
open(out+'big_v4.xls','wb').write(cfb([('Workbook',big)],ver=4))
open(out+'small_v4.xls','wb').write(cfb([('Workbook',wb)],ver=4))
# FILEPASS xor
fp=rec(0x002F,struct.pack('<HHH',0,0x1234,0x5678))
open(out+'filepass_xor.xls','wb').write(cfb([('Workbook',workbook([('One',sh1)],pre=fp))]))
fp=rec(0x002F,struct.pack('<HHH',1,1,1)+b'\0'*48)
open(out+'filepass_rc4.xls','wb').write(cfb([('Workbook',workbook([('One',sh1)],pre=fp))]))
# encrypted package containers
open(out+'enc_small.xlsx','wb').write(cfb([('EncryptionInfo',b'\x04\0\x04\0'+b'x'*100),('EncryptedPackage',b'y'*1000)]))
open(out+'enc_big.xlsx','wb').write(cfb([('EncryptionInfo',b'\x04\0\x04\0'+b'x'*100),('EncryptedPackage',b'y'*10000)]))
open(out+'enc_v4.xlsx','wb').write(cfb([('EncryptionInfo',b'\x04\0\x04\0'+b'x'*5000),('EncryptedPackage',b'y'*10000)],ver=4))
