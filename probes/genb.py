import struct, zipfile, io
def vt(t): return bytes([t]) if t<0x80 else bytes([(t&0x7f)|0x80, t>>7])
def vl(n):
    o=b''
    while True:
        b=n&0x7f; n>>=7
        if n: o+=bytes([b|0x80])
        else: o+=bytes([b]); return o
def rec(t,d=b''): return vt(t)+vl(len(d))+d
def ws(s): b=s.encode('utf-16le'); return struct.pack('<I',len(b)//2)+b
def workbook(names, bookview_dx=0x5a00, fv=True):
    o=rec(0x83)
    if fv: o+=rec(0x80, bytes(16)+ws('xl')+ws('6')+ws('6')+ws('22'))
    o+=rec(0x99, struct.pack('<III',0x10020,0x280ab,0))
    o+=rec(0x87)+rec(0x9e, struct.pack('<iiIIIII',0,0,bookview_dx,0x22b0,600,0,0)+b'\x78')+rec(0x88)
    o+=rec(0x8f)
    for i,n in enumerate(names): o+=rec(0x9c, struct.pack('<II',0,i+1)+ws('rId%d'%(i+1))+ws(n))
    o+=rec(0x90)
    o+=rec(0x9d, bytes(26))+rec(0x84)
    return o
def cellhdr(col,style=0): return struct.pack('<I',col)+struct.pack('<I',style)  # col, iStyleRef(24)+flags
def sheet(rows):
    o=rec(0x81)+rec(0x93, bytes(23))+rec(0x94, struct.pack('<IIII',0,10,0,10))+rec(0x91)
    for r,cells in rows:
        o+=rec(0x00, struct.pack('<IIHHB',r,0,300,0,0)+struct.pack('<I',0))
        for c in cells: o+=c
    o+=rec(0x92)+rec(0x82)
    return o
def styles():
    o=rec(0x116)+rec(0x267,struct.pack('<I',1))+rec(0x2c,struct.pack('<H',164)+ws('yyyy\\-mm\\-dd'))+rec(0x268)
    o+=rec(0x269,struct.pack('<I',2))+rec(0x2f,struct.pack('<HH',0,0)+bytes(12))+rec(0x2f,struct.pack('<HH',0,164)+bytes(12))+rec(0x26a)+rec(0x117)
    return o
def xlsb(path, names, sheets, **kw):
    z=zipfile.ZipFile(path,'w')
    z.writestr('[Content_Types].xml','<Types xmlns="http://schemas.openxmlformats.org/package/2006/content-types"/>')
    rels='<Relationships xmlns="http://schemas.openxmlformats.org/package/2006/relationships">'+''.join('<Relationship Id="rId%d" Type="http://schemas.openxmlformats.org/officeDocument/2006/relationships/worksheet" Target="worksheets/sheet%d.bin"/>'%(i+1,i+1) for i in range(len(names)))+'</Relationships>'
    z.writestr('xl/_rels/workbook.bin.rels',rels)
    z.writestr('xl/workbook.bin',workbook(names,**kw))
    z.writestr('xl/styles.bin',styles())
    for i,s in enumerate(sheets): z.writestr('xl/worksheets/sheet%d.bin'%(i+1),s)
    z.close()
rkint=lambda v,d100=0: struct.pack('<I',((v<<2)&0xFFFFFFFF)|2|d100)
cells=[ rec(0x02,cellhdr(0,0)+rkint(44000)), rec(0x02,cellhdr(1,1)+rkint(44000)), rec(0x05,cellhdr(2,1)+struct.pack('<d',44000.0)),
        rec(0x0b,cellhdr(3,0)+bytes([0x07])+struct.pack('<H',0)+struct.pack('<I',2)+bytes([0x1c,0x07])+struct.pack('<I',0)),  # BrtFmlaError #DIV/0!
        rec(0x03,cellhdr(4,0)+bytes([0x2a])), rec(0x02,cellhdr(5,0)+rkint(-5)), rec(0x02,cellhdr(6,0)+rkint(12345,1)), rec(0x02,cellhdr(7,1)+rkint(4400000,1)) ]
sh=sheet([(0,cells)])
xlsb('/tmp/scratch/files/a.xlsb',['S1','S2'],[sh,sh])
xlsb('/tmp/scratch/files/bv400.xlsb',['S1','S2'],[sh,sh],bookview_dx=0x0190)
