import random, struct, subprocess, sys, os, shutil
sys.path.insert(0,'/tmp/scratch')
import importlib.util
spec=importlib.util.spec_from_file_location('gen','/tmp/scratch/gen.py')
# reuse helpers by exec of the top part of gen.py (definitions only)
src=open('/tmp/scratch/gen.py').read().split("out='/tmp/scratch/files/'")[0]
exec(src)
random.seed(int(sys.argv[1]) if len(sys.argv)>1 else 1)
D='/tmp/scratch/files/sst'; shutil.rmtree(D,ignore_errors=True); os.makedirs(D)
def rnd_string(kind):
    n=random.choice([0,1,2,3,5,8,20])
    if kind=='latin': return [random.choice([0x41,0x62,0xE9,0x20,0xFF]) for _ in range(n)]
    if kind=='bmp': return [random.choice([0x41,0x3042,0x20AC,0x62,0x4E2D]) for _ in range(n)]
    out=[]
    for _ in range(n):
        if random.random()<0.4: cp=random.choice([0x1F600,0x10000,0x2F800]); cp-=0x10000; out+= [0xD800+(cp>>10),0xDC00+(cp&0x3FF)]
        else: out.append(random.choice([0x41,0x3042]))
    return out
def build_sst(strings, plan):
    """strings: list of (units[list of u16], nruns, extlen). plan: 'none'|'all_single' handled by caller via cut index.
    returns list of atoms: ('H',bytes) unsplittable; ('C',unit) char; ('B',byte) plain byte"""
    atoms=[]
    for units,nruns,extlen in strings:
        wide=any(u>0xFF for u in units)
        flags=(1 if wide else 0)|(8 if nruns else 0)|(4 if extlen else 0)
        h=struct.pack('<HB',len(units),flags)
        if nruns: h+=struct.pack('<H',nruns)
        if extlen: h+=struct.pack('<I',extlen)
        atoms.append(('H',h,wide))
        for u in units: atoms.append(('C',u,wide))
        for k in range(nruns*4): atoms.append(('B',k&0xFF,None))
        for k in range(extlen): atoms.append(('B',(k*7)&0xFF,None))
    return atoms
def serialize(atoms, cuts, recompress):
    """cuts: set of atom indices BEFORE which a new CONTINUE starts. returns list of record payloads"""
    recs=[bytearray()]
    cur_wide=None
    for idx,(k,v,w) in enumerate(atoms):
        if idx in cuts:
            recs.append(bytearray())
            if k=='C':
                # continuing char data: need flag byte; choose encoding for the rest of this string's chars in this segment
                # find remaining chars of this string
                j=idx; rest=[]
                while j<len(atoms) and atoms[j][0]=='C' and (j==idx or j not in cuts): rest.append(atoms[j][1]); j+=1
                can8=all(u<=0xFF for u in rest)
                if can8 and (recompress or not w): cur_wide=False
                else: cur_wide=True
                recs[-1].append(1 if cur_wide else 0)
        if k=='H':
            recs[-1]+=v; cur_wide=w
        elif k=='C':
            if cur_wide: recs[-1]+=struct.pack('<H',v)
            else: recs[-1].append(v)
        else: recs[-1].append(v)
    return recs
def xls_with_sst(strings, cuts, recompress):
    atoms=build_sst(strings,None)
    recs=serialize(atoms,cuts,recompress)
    n=len(strings)
    sst=rec(0x00FC, struct.pack('<II',n,n)+bytes(recs[0]))
    for r in recs[1:]: sst+=rec(0x003C,bytes(r))
    cells=b''.join(rec(0x00FD,struct.pack('<HHHI',i,0,0,i)) for i in range(n))
    wb=workbook([('S',cells)],extra_globals=sst)
    return cfb([('Workbook',wb)]), atoms
cases={}
kinds={}
n=0
for t in range(int(sys.argv[2]) if len(sys.argv)>2 else 40):
    strings=[]
    for _ in range(random.randint(1,4)):
        kind=random.choice(['latin','bmp','astral'])
        units=rnd_string(kind)
        strings.append((units, random.choice([0,0,1,2]), random.choice([0,0,3,9])))
    atoms=build_sst(strings,None)
    # legal cut points: before any atom except: index 0; 'H' atoms are fine to start a record (cut before header); never inside header (header is one atom)
    for cut in [None]+list(range(1,len(atoms))):
        for recompress in (False,True):
            cuts=set() if cut is None else {cut}
            data,_=xls_with_sst(strings,cuts,recompress)
            p='%s/%05d.xls'%(D,n); n+=1
            open(p,'wb').write(data)
            # classify cut
            if cut is None: ck='none'
            else:
                k,v,w=atoms[cut]; pk=atoms[cut-1][0]
                if k=='H': ck='before_header'
                elif k=='C':
                    ck='in_chars'
                    if pk=='H': ck='chars_zero_before'
                    if 0xDC00<=v<=0xDFFF: ck='split_surrogate'
                else: ck='in_runs_or_ext' if pk=='B' else 'before_runs'
            cases[p]=(strings,ck,recompress)
files=sorted(cases)
out=''
for k in range(0,len(files),500):
    out+=subprocess.run(['/tmp/scratch/target/debug/scratch']+files[k:k+500],stdout=subprocess.PIPE,text=True).stdout
res={}
for line in out.splitlines():
    p,r=line.split('\t'); strings,ck,rc=cases[p]
    exp=''.join('%d=%s;'%(i,str(list(u)).replace(' ','').replace(',',', ')) for i,(u,_,_) in enumerate(strings) if len(u)>0)
    ok = (r==exp)
    res.setdefault((ck,rc),[0,0,None]); res[(ck,rc)][0]+=1
    if not ok:
        res[(ck,rc)][1]+=1
        if res[(ck,rc)][2] is None: res[(ck,rc)][2]=(p,exp[:120],r[:120])
for k,v in sorted(res.items()): print(k,'cases',v[0],'bad',v[1],v[2] if v[1] else '')
