import random, zipfile, subprocess, os, sys, shutil
random.seed(int(sys.argv[1]) if len(sys.argv)>1 else 1)
D='/tmp/scratch/files/ods'; shutil.rmtree(D,ignore_errors=True); os.makedirs(D)
MAN='<?xml version="1.0"?><manifest:manifest xmlns:manifest="urn:oasis:names:tc:opendocument:xmlns:manifest:1.0"><manifest:file-entry manifest:full-path="/" manifest:media-type="application/vnd.oasis.opendocument.spreadsheet"/></manifest:manifest>'
def cellxml(v,rep):
    r=' table:number-columns-repeated="%d"'%rep if rep>1 else ''
    if v is None: return '<table:table-cell%s/>'%r
    return '<table:table-cell%s office:value-type="float" office:value="%d"><text:p>%d</text:p></table:table-cell>'%(r,v,v)
def runs(seq):
    # split seq into runs of equal values then randomly cut runs
    out=[]; i=0
    while i<len(seq):
        j=i
        while j<len(seq) and seq[j]==seq[i]: j+=1
        n=j-i
        while n>0:
            k=random.randint(1,n) if random.random()<0.5 else n
            out.append((seq[i],k)); n-=k
        i=j
    return out
def make(grid,H,W,trail_rows,trail_cols):
    rows=[]
    for r in range(H):
        row=[grid.get((r,c)) for c in range(W)]
        # strip trailing Nones optionally
        while row and row[-1] is None and random.random()<0.6: row.pop()
        if trail_cols and random.random()<0.5: row=row+[None]*random.choice([1,5,1000])
        rows.append(tuple(row))
    xml=''
    for row,k in runs(rows):
        cells=''.join(cellxml(v,n) for v,n in runs(list(row))) if row else '<table:table-cell/>'
        r=' table:number-rows-repeated="%d"'%k if k>1 else ''
        xml+='<table:table-row%s>%s</table:table-row>'%(r,cells)
    if trail_rows: xml+='<table:table-row table:number-rows-repeated="%d"><table:table-cell table:number-columns-repeated="%d"/></table:table-row>'%(random.choice([1,3,1048000]),random.choice([1,4,1024]))
    return xml
exp={}
N=int(sys.argv[2]) if len(sys.argv)>2 else 400
for n in range(N):
    H=random.randint(1,7); W=random.randint(1,6)
    grid={}
    r0=random.randint(0,3); c0=random.randint(0,3)
    dup_rows=random.random()<0.5
    for r in range(r0,H):
        if random.random()<0.3: continue
        if dup_rows and r>r0 and random.random()<0.5 and any((r-1,c) in grid for c in range(W)):
            for c in range(W):
                if (r-1,c) in grid: grid[(r,c)]=grid[(r-1,c)]
            continue
        for c in range(c0,W):
            if random.random()<0.5: grid[(r,c)]=random.choice([1,2,3]) if random.random()<0.5 else 10+r*10+c
    body=make(grid,H,W,random.random()<0.5,random.random()<0.5)
    content='<?xml version="1.0" encoding="UTF-8"?><office:document-content xmlns:office="urn:oasis:names:tc:opendocument:xmlns:office:1.0" xmlns:table="urn:oasis:names:tc:opendocument:xmlns:table:1.0" xmlns:text="urn:oasis:names:tc:opendocument:xmlns:text:1.0"><office:body><office:spreadsheet><table:table table:name="S1">%s</table:table></office:spreadsheet></office:body></office:document-content>'%body
    p='%s/%04d.ods'%(D,n)
    z=zipfile.ZipFile(p,'w'); z.writestr('mimetype','application/vnd.oasis.opendocument.spreadsheet'); z.writestr('META-INF/manifest.xml',MAN); z.writestr('content.xml',content); z.close()
    exp[p]=(grid,body)
out=subprocess.run(['/tmp/scratch/target/debug/scratch']+sorted(exp),capture_output=True,text=True).stdout
bad=0; kinds={}
for line in out.splitlines():
    p,res=line.split('\t')
    grid,body=exp[p]
    if grid:
        rs=[k[0] for k in grid]; cs=[k[1] for k in grid]
        e='Some((%d, %d)) Some((%d, %d)) rows=%d |'%(min(rs),min(cs),max(rs),max(cs),max(rs)-min(rs)+1)+''.join(' %d,%d=%d'%(r,c,grid[(r,c)]) for r,c in sorted(grid))
    else: e='None None rows=0 |'
    if res!=e:
        bad+=1
        rs=[k[0] for k in grid] if grid else [0]; cs=[k[1] for k in grid] if grid else [0]
        feat=('c0>0' if min(cs)>0 else 'c0=0', 'SHAPE' if 'SHAPE' in res else ('PANIC' if 'PANIC' in res else ('ERR' if 'ERR' in res else 'VAL')))
        kinds.setdefault(feat,[]).append((p,e,res,body))
print('cases',len(exp),'bad',bad)
for k,v in kinds.items():
    print(k,len(v)); p,e,res,body=min(v,key=lambda t:len(t[3])); print('  exp',e); print('  got',res); print('  xml',body[:600].replace('<table:table-','<').replace('</table:table-','</').replace(' office:value-type="float"','').replace('table:number-','n-'))
