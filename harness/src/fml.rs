//! Formula ASTs with three independent back ends: BIFF8 rgce, XLSB rgce and the reference A1
//! renderer (spreadsheet column letters by bijective base 26, `$` on absolute components,
//! `Sheet!` prefix, operators and functions in evaluation order, no added spaces).

use crate::model::{col_name, ErrKind, ALL_ERRS};
use crate::prng::Rng;

#[derive(Clone, Debug, PartialEq)]
pub struct CRef {
    pub row: u32,
    pub col: u32,
    pub row_rel: bool,
    pub col_rel: bool,
}

impl CRef {
    pub fn a1(&self) -> String {
        format!(
            "{}{}{}{}",
            if self.col_rel { "" } else { "$" },
            col_name(self.col),
            if self.row_rel { "" } else { "$" },
            self.row + 1
        )
    }
    fn col_field(&self) -> u16 {
        self.col as u16 | if self.col_rel { 0x4000 } else { 0 } | if self.row_rel { 0x8000 } else { 0 }
    }
    pub fn kind(&self) -> &'static str {
        match (self.col_rel, self.row_rel) {
            (true, true) => "rel",
            (false, false) => "abs",
            (false, true) => "col_abs",
            (true, false) => "row_abs",
        }
    }
}

/// (iftab, name, fixed argument count or None for variable arity) — [MS-XLS] 2.5.198.17 Ftab
pub const FUNCS: [(u16, &str, Option<usize>); 40] = [
    (0, "COUNT", None),
    (1, "IF", None),
    (2, "ISNA", Some(1)),
    (3, "ISERROR", Some(1)),
    (4, "SUM", None),
    (5, "AVERAGE", None),
    (6, "MIN", None),
    (7, "MAX", None),
    (10, "NA", Some(0)),
    (15, "SIN", Some(1)),
    (16, "COS", Some(1)),
    (18, "ATAN", Some(1)),
    (19, "PI", Some(0)),
    (20, "SQRT", Some(1)),
    (21, "EXP", Some(1)),
    (22, "LN", Some(1)),
    (23, "LOG10", Some(1)),
    (24, "ABS", Some(1)),
    (25, "INT", Some(1)),
    (26, "SIGN", Some(1)),
    (27, "ROUND", Some(2)),
    (30, "REPT", Some(2)),
    (31, "MID", Some(3)),
    (32, "LEN", Some(1)),
    (33, "VALUE", Some(1)),
    (34, "TRUE", Some(0)),
    (35, "FALSE", Some(0)),
    (36, "AND", None),
    (37, "OR", None),
    (38, "NOT", Some(1)),
    (39, "MOD", Some(2)),
    (63, "RAND", Some(0)),
    (65, "DATE", Some(3)),
    (66, "TIME", Some(3)),
    (97, "ATAN2", Some(2)),
    (100, "CHOOSE", None),
    (111, "CHAR", Some(1)),
    (112, "LOWER", Some(1)),
    (113, "UPPER", Some(1)),
    (118, "TRIM", Some(1)),
];

pub const BINOPS: [(&str, u8); 12] = [("+", 0x03), ("-", 0x04), ("*", 0x05), ("/", 0x06), ("^", 0x07), ("&", 0x08), ("<", 0x09), ("<=", 0x0A), ("=", 0x0B), (">", 0x0C), (">=", 0x0D), ("<>", 0x0E)];

#[derive(Clone, Debug, PartialEq)]
pub enum Ex {
    Ref(CRef),
    Area(CRef, CRef),
    /// index into the XTI table
    Ref3d(usize, CRef),
    Area3d(usize, CRef, CRef),
    /// 1-based index into the defined names
    Name(usize),
    Int(u16),
    Num(f64),
    /// text, stored as 16-bit units in BIFF8 even if 8-bit would do
    Str(String, bool),
    Bool(bool),
    Err(ErrKind),
    Missing,
    /// '+' / '-' prefix, '%' postfix
    Un(char, Box<Ex>),
    Bin(usize, Box<Ex>, Box<Ex>),
    Paren(Box<Ex>),
    /// index into FUNCS
    Func(usize, Vec<Ex>),
    /// SUM with one argument written as PtgAttrSum
    AttrSum(Box<Ex>),
}

pub struct Env<'a> {
    /// sheet name per XTI entry
    pub xti_sheets: &'a [String],
    pub names: &'a [String],
}

impl Ex {
    pub fn a1(&self, env: &Env) -> String {
        match self {
            Ex::Ref(r) => r.a1(),
            Ex::Area(a, b) => format!("{}:{}", a.a1(), b.a1()),
            Ex::Ref3d(x, r) => format!("{}!{}", env.xti_sheets[*x], r.a1()),
            Ex::Area3d(x, a, b) => format!("{}!{}:{}", env.xti_sheets[*x], a.a1(), b.a1()),
            Ex::Name(i) => env.names[*i - 1].clone(),
            Ex::Int(v) => v.to_string(),
            Ex::Num(v) => v.to_string(),
            Ex::Str(s, _) => format!("\"{}\"", s),
            Ex::Bool(b) => if *b { "TRUE" } else { "FALSE" }.to_string(),
            Ex::Err(e) => e.text().to_string(),
            Ex::Missing => String::new(),
            Ex::Un('%', e) => format!("{}%", e.a1(env)),
            Ex::Un(c, e) => format!("{}{}", c, e.a1(env)),
            Ex::Bin(op, a, b) => format!("{}{}{}", a.a1(env), BINOPS[*op].0, b.a1(env)),
            Ex::Paren(e) => format!("({})", e.a1(env)),
            Ex::Func(f, args) => format!("{}({})", FUNCS[*f].1, args.iter().map(|a| a.a1(env)).collect::<Vec<_>>().join(",")),
            Ex::AttrSum(e) => format!("SUM({})", e.a1(env)),
        }
    }

    /// closed-vocabulary kinds of the tokens in this expression
    pub fn kinds(&self, out: &mut Vec<String>) {
        match self {
            Ex::Ref(r) => out.push(format!("PtgRef:{}", r.kind())),
            Ex::Area(a, b) => out.push(format!("PtgArea:{}+{}", a.kind(), b.kind())),
            Ex::Ref3d(_, r) => out.push(format!("PtgRef3d:{}", r.kind())),
            Ex::Area3d(_, a, b) => out.push(format!("PtgArea3d:{}+{}", a.kind(), b.kind())),
            Ex::Name(_) => out.push("PtgName".into()),
            Ex::Int(_) => out.push("PtgInt".into()),
            Ex::Num(_) => out.push("PtgNum".into()),
            Ex::Str(s, w) => out.push(if *w || s.chars().any(|c| c as u32 > 0xFF) { "PtgStr:16bit".into() } else { "PtgStr:8bit".into() }),
            Ex::Bool(_) => out.push("PtgBool".into()),
            Ex::Err(_) => out.push("PtgErr".into()),
            Ex::Missing => out.push("PtgMissArg".into()),
            Ex::Un(c, e) => {
                out.push(format!("unary:{}", c));
                e.kinds(out)
            }
            Ex::Bin(op, a, b) => {
                out.push(format!("binary:{}", BINOPS[*op].0));
                a.kinds(out);
                b.kinds(out)
            }
            Ex::Paren(e) => {
                out.push("PtgParen".into());
                e.kinds(out)
            }
            Ex::Func(f, args) => {
                out.push(if FUNCS[*f].2.is_some() { format!("PtgFunc:{}", FUNCS[*f].1) } else { format!("PtgFuncVar:{}", args.len().min(3)) });
                args.iter().for_each(|a| a.kinds(out))
            }
            Ex::AttrSum(e) => {
                out.push("PtgAttrSum".into());
                e.kinds(out)
            }
        }
    }

    /// BIFF8 (wide = false) or XLSB (wide = true) token stream
    pub fn rgce(&self, wide: bool, out: &mut Vec<u8>) {
        // token class (reference / value / array): any is legal here; chosen from the node itself so
        // that an expression always encodes to the same bytes
        let class = |k: u32| -> u8 { [0x00u8, 0x20, 0x40][(k % 3) as usize] };
        let row = |r: u32, out: &mut Vec<u8>| {
            if wide {
                out.extend_from_slice(&r.to_le_bytes())
            } else {
                out.extend_from_slice(&(r as u16).to_le_bytes())
            }
        };
        match self {
            Ex::Ref(r) => {
                out.push(0x24 + class(r.row + r.col));
                row(r.row, out);
                out.extend_from_slice(&r.col_field().to_le_bytes());
            }
            Ex::Area(a, b) => {
                out.push(0x25 + class(a.row + b.col));
                row(a.row, out);
                row(b.row, out);
                out.extend_from_slice(&a.col_field().to_le_bytes());
                out.extend_from_slice(&b.col_field().to_le_bytes());
            }
            Ex::Ref3d(x, r) => {
                out.push(0x3A + class(r.row + r.col + *x as u32));
                out.extend_from_slice(&(*x as u16).to_le_bytes());
                row(r.row, out);
                out.extend_from_slice(&r.col_field().to_le_bytes());
            }
            Ex::Area3d(x, a, b) => {
                out.push(0x3B + class(a.row + b.col + *x as u32));
                out.extend_from_slice(&(*x as u16).to_le_bytes());
                row(a.row, out);
                row(b.row, out);
                out.extend_from_slice(&a.col_field().to_le_bytes());
                out.extend_from_slice(&b.col_field().to_le_bytes());
            }
            Ex::Name(i) => {
                out.push(0x23 + class(*i as u32));
                out.extend_from_slice(&(*i as u32).to_le_bytes());
            }
            Ex::Int(v) => {
                out.push(0x1E);
                out.extend_from_slice(&v.to_le_bytes());
            }
            Ex::Num(v) => {
                out.push(0x1F);
                out.extend_from_slice(&v.to_le_bytes());
            }
            Ex::Str(s, w16) => {
                out.push(0x17);
                let u: Vec<u16> = s.encode_utf16().collect();
                if wide {
                    out.extend_from_slice(&(u.len() as u16).to_le_bytes());
                    u.iter().for_each(|c| out.extend_from_slice(&c.to_le_bytes()));
                } else {
                    out.push(u.len() as u8);
                    let w = u.iter().any(|c| *c > 0xFF) || *w16;
                    out.push(w as u8);
                    for c in &u {
                        if w {
                            out.extend_from_slice(&c.to_le_bytes())
                        } else {
                            out.push(*c as u8)
                        }
                    }
                }
            }
            Ex::Bool(b) => out.extend_from_slice(&[0x1D, *b as u8]),
            Ex::Err(e) => out.extend_from_slice(&[0x1C, e.code()]),
            Ex::Missing => out.push(0x16),
            Ex::Un(c, e) => {
                e.rgce(wide, out);
                out.push(match c {
                    '+' => 0x12,
                    '-' => 0x13,
                    _ => 0x14,
                });
            }
            Ex::Bin(op, a, b) => {
                a.rgce(wide, out);
                b.rgce(wide, out);
                out.push(BINOPS[*op].1);
            }
            Ex::Paren(e) => {
                e.rgce(wide, out);
                out.push(0x15);
            }
            Ex::Func(f, args) => {
                args.iter().for_each(|a| a.rgce(wide, out));
                let (iftab, _, fixed) = FUNCS[*f];
                if fixed.is_some() {
                    out.push(0x21 + class(iftab as u32 + args.len() as u32));
                    out.extend_from_slice(&iftab.to_le_bytes());
                } else {
                    out.push(0x22 + class(iftab as u32 + args.len() as u32));
                    out.push(args.len() as u8);
                    out.extend_from_slice(&iftab.to_le_bytes());
                }
            }
            Ex::AttrSum(e) => {
                e.rgce(wide, out);
                out.extend_from_slice(&[0x19, 0x10, 0, 0]);
            }
        }
    }
}

pub struct GenCfg {
    pub max_row: u32,
    pub max_col: u32,
    pub n_xti: usize,
    pub n_names: usize,
}

pub fn gen_cref(rng: &mut Rng, g: &GenCfg) -> CRef {
    let col = match rng.below(8) {
        0 => 0,
        1 => *rng.pick(&[25u32, 26, 27, 51, 52, 255]),
        2 => *rng.pick(&[256u32, 701, 702, 703, 16_383]),
        3 => g.max_col,
        4 => rng.range_u32(0, g.max_col),
        _ => rng.range_u32(0, 30),
    }
    .min(g.max_col);
    let row = match rng.below(6) {
        0 => 0,
        1 => g.max_row,
        2 => rng.range_u32(0, g.max_row),
        3 => *rng.pick(&[65_534u32, 65_535, 65_536, 99_999]).min(&g.max_row),
        _ => rng.range_u32(0, 100),
    };
    CRef { row, col, row_rel: rng.bool(), col_rel: rng.bool() }
}

fn ordered(a: CRef, b: CRef) -> (CRef, CRef) {
    let (r0, r1) = (a.row.min(b.row), a.row.max(b.row));
    let (c0, c1) = (a.col.min(b.col), a.col.max(b.col));
    (CRef { row: r0, col: c0, ..a }, CRef { row: r1, col: c1, ..b })
}

pub fn gen_operand(rng: &mut Rng, g: &GenCfg, depth: u32) -> Ex {
    let top = if depth >= 4 { 9 } else { 14 };
    match rng.below(top) {
        0 | 1 => Ex::Ref(gen_cref(rng, g)),
        2 => {
            let (a, b) = ordered(gen_cref(rng, g), gen_cref(rng, g));
            Ex::Area(a, b)
        }
        3 if g.n_xti > 0 => Ex::Ref3d(rng.usize(g.n_xti), gen_cref(rng, g)),
        3 => Ex::Int(rng.next_u32() as u16),
        4 if g.n_xti > 0 => {
            let (a, b) = ordered(gen_cref(rng, g), gen_cref(rng, g));
            Ex::Area3d(rng.usize(g.n_xti), a, b)
        }
        4 => Ex::Bool(rng.bool()),
        5 if g.n_names > 0 => Ex::Name(1 + rng.usize(g.n_names)),
        5 => Ex::Err(*rng.pick(&ALL_ERRS)),
        6 => match rng.below(4) {
            0 => Ex::Int(rng.next_u32() as u16),
            1 => Ex::Num(*rng.pick(&[1.5, 0.25, 1234567.5, -0.0078125, 1e10, 2.5e-7, 100.0])),
            2 => Ex::Bool(rng.bool()),
            _ => Ex::Err(*rng.pick(&ALL_ERRS)),
        },
        7 | 8 => Ex::Str(rng.pick(&["", "text", "A1", "é ÿ", "日本 𝄞", "a b  c", "SUM(", "x,y"]).to_string(), rng.chance(1, 4)),
        9 => Ex::Paren(Box::new(gen_expr(rng, g, depth + 1))),
        10 => Ex::Un(*rng.pick(&['+', '-', '%']), Box::new(gen_operand(rng, g, depth + 1))),
        11 => Ex::AttrSum(Box::new({
            let (a, b) = ordered(gen_cref(rng, g), gen_cref(rng, g));
            Ex::Area(a, b)
        })),
        _ => {
            let f = rng.usize(FUNCS.len());
            let n = match FUNCS[f].2 {
                Some(n) => n,
                None => match rng.below(8) {
                    0 => 0,
                    1 => 8,
                    _ => 1 + rng.usize(4),
                },
            };
            let args = (0..n)
                .map(|_| if FUNCS[f].2.is_none() && rng.chance(1, 12) { Ex::Missing } else { gen_expr(rng, g, depth + 1) })
                .collect();
            Ex::Func(f, args)
        }
    }
}

pub fn gen_expr(rng: &mut Rng, g: &GenCfg, depth: u32) -> Ex {
    let mut e = gen_operand(rng, g, depth);
    let n = if depth >= 3 { 0 } else { rng.usize(3) };
    for _ in 0..n {
        e = Ex::Bin(rng.usize(BINOPS.len()), Box::new(e), Box::new(gen_operand(rng, g, depth + 1)));
    }
    e
}
