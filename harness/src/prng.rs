//! Self-contained xoshiro256** PRNG so that every run is a function of VERIF_SEED only.

#[derive(Clone)]
pub struct Rng {
    s: [u64; 4],
}

fn splitmix(x: &mut u64) -> u64 {
    *x = x.wrapping_add(0x9E37_79B9_7F4A_7C15);
    let mut z = *x;
    z = (z ^ (z >> 30)).wrapping_mul(0xBF58_476D_1CE4_E5B9);
    z = (z ^ (z >> 27)).wrapping_mul(0x94D0_49BB_1331_11EB);
    z ^ (z >> 31)
}

pub fn mix(a: u64, b: u64) -> u64 {
    let mut x = a ^ b.rotate_left(32) ^ 0xD1B5_4A32_D192_ED03;
    splitmix(&mut x)
}

pub fn hash_bytes(b: &[u8]) -> u64 {
    // FNV-1a 64 followed by a finaliser
    let mut h: u64 = 0xcbf2_9ce4_8422_2325;
    for &c in b {
        h ^= c as u64;
        h = h.wrapping_mul(0x1000_0000_01b3);
    }
    let mut x = h;
    splitmix(&mut x)
}

pub fn hash_str(s: &str) -> u64 {
    hash_bytes(s.as_bytes())
}

impl Rng {
    pub fn new(seed: u64) -> Rng {
        let mut x = seed;
        Rng {
            s: [
                splitmix(&mut x),
                splitmix(&mut x),
                splitmix(&mut x),
                splitmix(&mut x),
            ],
        }
    }
    /// independent stream for (seed, tag, index)
    pub fn derive(seed: u64, tag: &str, idx: u64) -> Rng {
        Rng::new(mix(mix(seed, hash_str(tag)), idx))
    }
    pub fn next_u64(&mut self) -> u64 {
        let r = self.s[1].wrapping_mul(5).rotate_left(7).wrapping_mul(9);
        let t = self.s[1] << 17;
        self.s[2] ^= self.s[0];
        self.s[3] ^= self.s[1];
        self.s[1] ^= self.s[2];
        self.s[0] ^= self.s[3];
        self.s[2] ^= t;
        self.s[3] = self.s[3].rotate_left(45);
        r
    }
    pub fn next_u32(&mut self) -> u32 {
        (self.next_u64() >> 32) as u32
    }
    /// uniform in 0..n (n > 0)
    pub fn below(&mut self, n: u64) -> u64 {
        debug_assert!(n > 0);
        ((self.next_u64() as u128 * n as u128) >> 64) as u64
    }
    pub fn usize(&mut self, n: usize) -> usize {
        self.below(n as u64) as usize
    }
    /// uniform in lo..=hi
    pub fn range(&mut self, lo: i64, hi: i64) -> i64 {
        lo + self.below((hi - lo + 1) as u64) as i64
    }
    pub fn range_u32(&mut self, lo: u32, hi: u32) -> u32 {
        lo + self.below((hi - lo) as u64 + 1) as u32
    }
    pub fn chance(&mut self, num: u64, den: u64) -> bool {
        self.below(den) < num
    }
    pub fn bool(&mut self) -> bool {
        self.next_u64() & 1 == 1
    }
    pub fn f64(&mut self) -> f64 {
        (self.next_u64() >> 11) as f64 / (1u64 << 53) as f64
    }
    pub fn pick<'a, T>(&mut self, v: &'a [T]) -> &'a T {
        &v[self.usize(v.len())]
    }
    pub fn shuffle<T>(&mut self, v: &mut [T]) {
        for i in (1..v.len()).rev() {
            let j = self.usize(i + 1);
            v.swap(i, j);
        }
    }
}
