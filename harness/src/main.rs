//! harness <ID> <quick|thorough> [--seed N] [--triage]      run a check (supervisor)
//! harness --replay <case.json>                              re-run the unit of a recorded violation
//! harness --worker ...                                      (internal)

mod core;
mod enc;
mod faults;
mod fml;
mod gen;
mod model;
mod monitor;
mod prng;
mod props;
mod supervisor;

use crate::core::*;

#[global_allocator]
static GLOBAL: monitor::CountingAlloc = monitor::CountingAlloc;

fn tier_of(s: &str) -> Tier {
    if s == "thorough" {
        Tier::Thorough
    } else {
        Tier::Quick
    }
}

fn main() {
    let args: Vec<String> = std::env::args().skip(1).collect();
    if args.is_empty() {
        eprintln!("usage: harness <ID> <quick|thorough> [--seed N] [--triage] | --replay <case.json>");
        std::process::exit(2);
    }
    if args[0] == "--worker" {
        let prop = props::by_id(&args[1]).expect("unknown property");
        let ctx = Ctx {
            tier: tier_of(&args[2]),
            seed: args[3].parse().unwrap(),
            skip: args[7].parse().unwrap(),
            verbose: false,
        };
        supervisor::worker_main(
            prop.as_ref(),
            ctx,
            args[4].parse().unwrap(),
            args[5].parse().unwrap(),
            args[6].parse().unwrap(),
        );
        return;
    }
    if args[0] == "--tiny-c06" {
        // in-process slice of the C06 fault enumeration over tiny stored containers (Miri / valgrind)
        monitor::install_panic_hook();
        let g = |i: usize, d: u64| args.get(i).and_then(|x| x.parse().ok()).unwrap_or(d);
        std::process::exit(props::c06::tiny_run(g(1, 0), g(2, 1), g(3, 40)));
    }
    if args[0] == "--tiny-c06-dump" {
        std::process::exit(props::c06::tiny_dump(&args[1], args.get(2).and_then(|x| x.parse().ok()).unwrap_or(128)));
    }
    if args[0] == "--tiny-c06-files" {
        monitor::install_panic_hook();
        let g = |i: usize, d: u64| args.get(i).and_then(|x| x.parse().ok()).unwrap_or(d);
        std::process::exit(props::c06::tiny_files(&args[1], g(2, 0), g(3, 1), g(4, 0)));
    }
    if args[0] == "--replay" {
        let txt = std::fs::read_to_string(&args[1]).expect("cannot read case file");
        let v: serde_json::Value = serde_json::from_str(&txt).expect("bad case file");
        let prop = props::by_id(v["property"].as_str().unwrap_or("")).expect("unknown property");
        let unit = v["detail"]["unit"].as_u64();
        let tier = tier_of(v["tier"].as_str().unwrap_or("quick"));
        let seed = v["seed"].as_u64().unwrap_or(0);
        monitor::install_panic_hook();
        println!("replaying {} class {}", prop.id(), v["class"]);
        // fault-enumeration cases carry their index inside the unit: resume there
        let skip = if prop.level() == "fault_enumeration" { v["detail"]["case"].as_u64().unwrap_or(0) } else { 0 };
        let ctx = Ctx { tier, seed, skip, verbose: true };
        let units: Vec<u64> = match unit {
            Some(u) => vec![u],
            None => (0..prop.units(tier)).collect(),
        };
        let mut found = false;
        for u in units {
            let mut out = UnitResult::default();
            prop.run_unit(&ctx, u, &mut out);
            for f in &out.failures {
                if Some(f.class.as_str()) == v["class"].as_str() {
                    let mut d = f.detail.clone();
                    if let Some(o) = d.as_object_mut() {
                        o.remove("input_hex");
                    }
                    println!("REPRODUCED class={} detail={}", f.class, d);
                    found = true;
                }
            }
            if found {
                break;
            }
        }
        if !found {
            println!("not reproduced (the tree may have changed since the case was recorded)");
        }
        std::process::exit(if found { 1 } else { 0 });
    }
    let id = args[0].clone();
    let mut tier = std::env::var("VERIF_TIER").ok().map(|s| tier_of(&s));
    let mut seed: u64 = std::env::var("VERIF_SEED")
        .ok()
        .and_then(|s| s.parse::<i64>().ok())
        .map(|x| x as u64)
        .unwrap_or(0);
    let mut triage = false;
    let mut i = 1;
    while i < args.len() {
        match args[i].as_str() {
            "quick" | "thorough" => tier = Some(tier_of(&args[i])),
            "--seed" => {
                i += 1;
                seed = args[i].parse::<i64>().map(|x| x as u64).unwrap_or(0);
            }
            "--triage" => triage = true,
            _ => {}
        }
        i += 1;
    }
    let Some(prop) = props::by_id(&id) else {
        eprintln!("unknown property {}", id);
        std::process::exit(2);
    };
    let code = supervisor::run_check(prop.as_ref(), tier.unwrap_or(Tier::Quick), seed, triage);
    std::process::exit(code);
}
