//! Property interface: a property is a deterministic list of work units; a unit runs many cases
//! under the monitors and reports counters, feature buckets, distinct-case hashes and failures.

use serde_json::{json, Value};
use std::collections::BTreeMap;

#[derive(Clone, Copy, PartialEq, Eq, Debug)]
pub enum Tier {
    Quick,
    Thorough,
}

impl Tier {
    pub fn name(self) -> &'static str {
        match self {
            Tier::Quick => "quick",
            Tier::Thorough => "thorough",
        }
    }
    pub fn pick<T>(self, q: T, t: T) -> T {
        match self {
            Tier::Quick => q,
            Tier::Thorough => t,
        }
    }
}

#[derive(Clone)]
pub struct Ctx {
    pub seed: u64,
    pub tier: Tier,
    /// when resuming a unit after a worker death: skip the first `skip` cases of the first unit
    pub skip: u64,
    pub verbose: bool,
}

#[derive(Clone, Debug)]
pub struct Failure {
    pub class: String,
    pub detail: Value,
}

#[derive(Default)]
pub struct UnitResult {
    pub evals: u64,
    /// hashes of the distinct non-trivial cases of this unit
    pub hashes: Vec<u64>,
    /// for exhaustive sweeps over huge domains: number of distinct inputs, known by construction
    pub distinct_by_construction: u64,
    pub features: BTreeMap<String, u64>,
    pub failures: Vec<Failure>,
    pub samples: Vec<Value>,
    /// max-aggregated readings (peak bytes, cpu us ...)
    pub maxima: BTreeMap<String, u64>,
    /// sum-aggregated counters (comparisons, cells ...)
    pub sums: BTreeMap<String, u64>,
}

impl UnitResult {
    pub fn feat(&mut self, f: &str) {
        *self.features.entry(f.to_string()).or_insert(0) += 1;
    }
    pub fn feat_n(&mut self, f: &str, n: u64) {
        if n > 0 {
            *self.features.entry(f.to_string()).or_insert(0) += n;
        }
    }
    pub fn sum(&mut self, k: &str, n: u64) {
        *self.sums.entry(k.to_string()).or_insert(0) += n;
    }
    pub fn max(&mut self, k: &str, n: u64) {
        let e = self.maxima.entry(k.to_string()).or_insert(0);
        if n > *e {
            *e = n;
        }
    }
    /// one executed case; `nontrivial_hash` = Some(hash of the case) when it is non-trivial
    pub fn case(&mut self, nontrivial_hash: Option<u64>) {
        self.evals += 1;
        if let Some(h) = nontrivial_hash {
            self.hashes.push(h);
        }
    }
    pub fn fail(&mut self, class: impl Into<String>, detail: Value) {
        let class = class.into();
        // keep at most 3 witnesses per class per unit
        if self.failures.iter().filter(|f| f.class == class).count() < 3 {
            self.failures.push(Failure { class, detail });
        } else {
            self.sum("failures_not_listed", 1);
        }
    }
    pub fn sample(&mut self, v: Value) {
        if self.samples.len() < 2 {
            self.samples.push(v);
        }
    }
    /// stream what has been gathered so far to the supervisor (so that a later death of the
    /// worker inside this unit does not lose it) and start afresh
    pub fn flush_partial(&mut self, unit: u64) {
        crate::supervisor::emit(&format!("P {}", self.to_json(unit)));
        let samples_seen = !self.samples.is_empty();
        *self = UnitResult::default();
        if samples_seen {
            self.samples.push(serde_json::Value::Null);
        }
    }
    pub fn to_json(&self, unit: u64) -> Value {
        json!({
            "unit": unit,
            "evals": self.evals,
            "hashes": self.hashes,
            "dbc": self.distinct_by_construction,
            "features": self.features,
            "failures": self.failures.iter().map(|f| json!({"class": f.class, "detail": f.detail})).collect::<Vec<_>>(),
            "samples": self.samples.iter().filter(|s| !s.is_null()).collect::<Vec<_>>(),
            "maxima": self.maxima,
            "sums": self.sums,
        })
    }
}

pub trait Prop: Sync {
    fn id(&self) -> &'static str;
    /// evidence level (exploration | fault_enumeration)
    fn level(&self) -> &'static str {
        "exploration"
    }
    /// how cases are generated and what makes one non-trivial / distinct
    fn rule(&self) -> String;
    fn assumptions(&self) -> Vec<String> {
        vec![]
    }
    fn units(&self, tier: Tier) -> u64;
    fn run_unit(&self, ctx: &Ctx, unit: u64, out: &mut UnitResult);
    /// feature buckets that must be observed at least once, else the run is inconclusive
    fn mandatory(&self, _tier: Tier) -> Vec<String> {
        vec![]
    }
    /// sub-spaces this tier enumerates completely (text for the evidence file)
    fn exhaustive(&self, _tier: Tier) -> Option<String> {
        None
    }
    /// CPU budget of one monitored phase (seconds); exceeding it is a `cpu` fault
    fn cpu_limit_s(&self, _tier: Tier) -> u64 {
        30
    }
    /// wall-clock budget for the whole run (seconds); exceeding it is `inconclusive`
    fn wall_budget_s(&self, tier: Tier) -> u64 {
        tier.pick(600, 7200)
    }
}

pub fn hex(b: &[u8]) -> String {
    let mut s = String::with_capacity(b.len() * 2);
    for x in b {
        s.push_str(&format!("{:02x}", x));
    }
    s
}

pub fn unhex(s: &str) -> Vec<u8> {
    (0..s.len() / 2)
        .filter_map(|i| u8::from_str_radix(&s[2 * i..2 * i + 2], 16).ok())
        .collect()
}
