//! Supervisor: spawns worker processes, attributes worker deaths (allocation aborts, CPU-watchdog
//! kills, stack overflows) to the announced case, aggregates unit results, classifies failures
//! against known_findings.json, writes the evidence file and decides the three-valued verdict.

use crate::core::*;
use crate::prng::hash_str;
use serde_json::{json, Value};
use std::collections::{BTreeMap, HashSet};
use std::io::{BufRead, BufReader, Write};
use std::process::{Command, Stdio};
use std::sync::mpsc;
use std::time::Instant;

pub const VERIF_DIR: &str = "/verif";

pub fn emit(line: &str) {
    let so = std::io::stdout();
    let mut l = so.lock();
    let _ = l.write_all(line.as_bytes());
    let _ = l.write_all(b"\n");
    let _ = l.flush();
}

/// worker side: announce the case about to run (so that a process death can be attributed)
pub fn marker(case_idx: u64, text: &str) {
    emit(&format!("M {} {}", case_idx, text.replace('\n', " ")));
}

pub fn worker_main(prop: &dyn Prop, ctx: Ctx, w: u64, nw: u64, start_unit: u64) {
    // a worker never outlives its supervisor
    #[cfg(all(target_os = "linux", not(miri)))]
    unsafe {
        libc::prctl(libc::PR_SET_PDEATHSIG, libc::SIGKILL);
    }
    crate::monitor::install_panic_hook();
    crate::monitor::start_cpu_watchdog(prop.cpu_limit_s(ctx.tier) * 1_000_000);
    let n = prop.units(ctx.tier);
    let mut first = true;
    let mut u = start_unit;
    while u < n {
        if u % nw == w {
            emit(&format!("B {}", u));
            let mut out = UnitResult::default();
            let mut c = ctx.clone();
            if !first {
                c.skip = 0;
            }
            first = false;
            // a panic of the harness itself (not inside a guarded call) is a harness error
            let r = std::panic::catch_unwind(std::panic::AssertUnwindSafe(|| {
                prop.run_unit(&c, u, &mut out)
            }));
            if r.is_err() {
                // a panic that unwound out of the unit: if it started inside calamine it is an
                // observation about calamine (reported under this property), else a harness error
                match crate::monitor::take_unguarded_calamine_fault() {
                    Some(f) => out.fail(
                        format!("{}|unguarded|fault:{}", prop.id().to_lowercase(), f.class),
                        serde_json::json!({"unit": u, "detail": f.detail}),
                    ),
                    None => {
                        emit(&format!("E harness panic in unit {}", u));
                        std::process::exit(3);
                    }
                }
            }
            emit(&format!("U {}", out.to_json(u)));
        }
        u += 1;
    }
    emit("D");
}

enum Msg {
    Line(usize, String),
    Exit(usize, Option<i32>, Option<i32>), // code, signal
}

struct WorkerState {
    unit: Option<u64>,
    marker: Option<(u64, String)>,
    frecord: Option<Value>,
    done: bool,
    deaths: u32,
}

/// pids of the live worker processes (killed when a run is cut short)
static WORKER_PIDS: std::sync::Mutex<Vec<u32>> = std::sync::Mutex::new(Vec::new());

fn kill_workers() {
    if let Ok(v) = WORKER_PIDS.lock() {
        for pid in v.iter() {
            unsafe {
                libc::kill(*pid as i32, libc::SIGKILL);
            }
        }
    }
}

fn spawn_worker(
    prop_id: &str,
    ctx: &Ctx,
    w: usize,
    nw: usize,
    start_unit: u64,
    skip: u64,
    tx: mpsc::Sender<Msg>,
) -> std::io::Result<()> {
    let exe = std::env::current_exe()?;
    let mut child = Command::new(exe)
        .args([
            "--worker",
            prop_id,
            ctx.tier.name(),
            &ctx.seed.to_string(),
            &w.to_string(),
            &nw.to_string(),
            &start_unit.to_string(),
            &skip.to_string(),
        ])
        .stdin(Stdio::null())
        .stdout(Stdio::piped())
        .stderr(Stdio::null())
        .spawn()?;
    let stdout = child.stdout.take().unwrap();
    let pid = child.id();
    if let Ok(mut v) = WORKER_PIDS.lock() {
        v.push(pid);
    }
    std::thread::spawn(move || {
        let rd = BufReader::with_capacity(1 << 20, stdout);
        for line in rd.split(b'\n') {
            match line {
                Ok(l) => {
                    let _ = tx.send(Msg::Line(w, String::from_utf8_lossy(&l).into_owned()));
                }
                Err(_) => break,
            }
        }
        let st = child.wait().ok();
        if let Ok(mut v) = WORKER_PIDS.lock() {
            v.retain(|p| *p != pid);
        }
        let code = st.and_then(|s| s.code());
        #[cfg(unix)]
        let sig = {
            use std::os::unix::process::ExitStatusExt;
            st.and_then(|s| s.signal())
        };
        let _ = tx.send(Msg::Exit(w, code, sig));
    });
    Ok(())
}

#[derive(Default)]
struct Agg {
    /// the run was stopped early because the verdict (violated) was already settled
    cut_short: bool,
    evals: u64,
    hashes: HashSet<u64>,
    dbc: u64,
    features: BTreeMap<String, u64>,
    maxima: BTreeMap<String, u64>,
    sums: BTreeMap<String, u64>,
    samples: Vec<Value>,
    failures: Vec<(String, Value)>,
    units_done: u64,
    deaths: u64,
    inconclusive: Vec<String>,
}

impl Agg {
    fn absorb(&mut self, v: &Value, complete: bool) {
        if complete {
            self.units_done += 1;
        }
        self.evals += v["evals"].as_u64().unwrap_or(0);
        self.dbc += v["dbc"].as_u64().unwrap_or(0);
        if let Some(h) = v["hashes"].as_array() {
            for x in h {
                if self.hashes.len() < 8_000_000 {
                    if let Some(x) = x.as_u64() {
                        self.hashes.insert(x);
                    }
                }
            }
        }
        for (k, dst) in [("features", &mut self.features), ("sums", &mut self.sums)] {
            if let Some(o) = v[k].as_object() {
                for (f, n) in o {
                    *dst.entry(f.clone()).or_insert(0) += n.as_u64().unwrap_or(0);
                }
            }
        }
        if let Some(o) = v["maxima"].as_object() {
            for (f, n) in o {
                let e = self.maxima.entry(f.clone()).or_insert(0);
                *e = (*e).max(n.as_u64().unwrap_or(0));
            }
        }
        if let Some(s) = v["samples"].as_array() {
            for x in s {
                if self.samples.len() < 5 {
                    self.samples.push(x.clone());
                }
            }
        }
        if let Some(fs) = v["failures"].as_array() {
            for f in fs {
                self.failures.push((
                    f["class"].as_str().unwrap_or("?").to_string(),
                    f["detail"].clone(),
                ));
            }
        }
    }
}

pub struct Known {
    /// exact class -> what
    pub open: BTreeMap<String, String>,
    /// class prefix -> what
    pub open_prefix: Vec<(String, String)>,
}

impl Known {
    pub fn lookup(&self, class: &str) -> Option<&String> {
        self.open.get(class).or_else(|| self.open_prefix.iter().find(|(p, _)| class.starts_with(p.as_str())).map(|(_, w)| w))
    }
}

pub fn load_known(prop_id: &str) -> Known {
    let mut open = BTreeMap::new();
    let mut open_prefix = vec![];
    if let Ok(s) = std::fs::read_to_string(format!("{}/known_findings.json", VERIF_DIR)) {
        if let Ok(v) = serde_json::from_str::<Value>(&s) {
            if let Some(a) = v["findings"].as_array() {
                for f in a {
                    if f["property"].as_str() == Some(prop_id) && f["status"].as_str() == Some("open")
                    {
                        let what = f["what"].as_str().unwrap_or("").to_string();
                        if let Some(p) = f["class_prefix"].as_str() {
                            if !p.is_empty() {
                                open_prefix.push((p.to_string(), what));
                            }
                        } else if let Some(c) = f["class"].as_str() {
                            open.insert(c.to_string(), what);
                        }
                    }
                }
            }
        }
    }
    Known { open, open_prefix }
}

pub fn run_check(prop: &dyn Prop, tier: Tier, seed: u64, triage: bool) -> i32 {
    let t0 = Instant::now();
    let id = prop.id();
    let ctx = Ctx {
        seed,
        tier,
        skip: 0,
        verbose: false,
    };
    let n_units = prop.units(tier);
    let jobs: usize = std::env::var("VERIF_JOBS")
        .ok()
        .and_then(|s| s.parse().ok())
        .unwrap_or(16);
    let nw = (n_units as usize).clamp(1, jobs);
    let (tx, rx) = mpsc::channel();
    let mut ws: Vec<WorkerState> = Vec::new();
    let mut agg = Agg::default();
    for w in 0..nw {
        ws.push(WorkerState {
            unit: None,
            marker: None,
            frecord: None,
            done: false,
            deaths: 0,
        });
        if let Err(e) = spawn_worker(id, &ctx, w, nw, 0, 0, tx.clone()) {
            agg.inconclusive.push(format!("cannot spawn worker: {}", e));
        }
    }
    // VERIF_WALL_BUDGET_FACTOR: sanitizer builds run the same workload several times slower
    let budget = prop.wall_budget_s(tier)
        * std::env::var("VERIF_WALL_BUDGET_FACTOR").ok().and_then(|s| s.parse::<u64>().ok()).unwrap_or(1).max(1);
    let known = load_known(id);
    let mut deaths_by_class: BTreeMap<String, u64> = BTreeMap::new();
    let mut live = nw;
    while live > 0 {
        if t0.elapsed().as_secs() > budget {
            agg.inconclusive.push(format!("wall-clock budget of {} s exceeded", budget));
            kill_workers();
            break;
        }
        let msg = match rx.recv_timeout(std::time::Duration::from_secs(5)) {
            Ok(m) => m,
            Err(mpsc::RecvTimeoutError::Timeout) => continue,
            Err(_) => break,
        };
        match msg {
            Msg::Line(w, l) => {
                let st = &mut ws[w];
                if let Some(r) = l.strip_prefix("B ") {
                    st.unit = r.trim().parse().ok();
                    st.marker = None;
                    st.frecord = None;
                } else if let Some(r) = l.strip_prefix("M ") {
                    let mut it = r.splitn(2, ' ');
                    let idx = it.next().and_then(|x| x.parse().ok()).unwrap_or(0);
                    st.marker = Some((idx, it.next().unwrap_or("").to_string()));
                    st.frecord = None;
                } else if let Some(r) = l.strip_prefix("U ") {
                    match serde_json::from_str::<Value>(r) {
                        Ok(v) => agg.absorb(&v, true),
                        Err(e) => agg.inconclusive.push(format!("bad unit record: {}", e)),
                    }
                    st.unit = None;
                    st.marker = None;
                } else if let Some(r) = l.strip_prefix("P ") {
                    match serde_json::from_str::<Value>(r) {
                        Ok(v) => agg.absorb(&v, false),
                        Err(e) => agg.inconclusive.push(format!("bad partial record: {}", e)),
                    }
                } else if let Some(r) = l.strip_prefix("F ") {
                    st.frecord = serde_json::from_str::<Value>(r).ok();
                } else if l == "D" {
                    st.done = true;
                } else if let Some(r) = l.strip_prefix("E ") {
                    agg.inconclusive.push(format!("worker {}: {}", w, r));
                }
            }
            Msg::Exit(w, code, sig) => {
                let st = &mut ws[w];
                if st.done {
                    live -= 1;
                    continue;
                }
                if code == Some(3) {
                    // harness error, already reported through an E line
                    live -= 1;
                    continue;
                }
                // the worker died inside a unit: attribute the death to the announced case
                agg.deaths += 1;
                st.deaths += 1;
                let unit = st.unit;
                let (case_idx, phase) = st.marker.clone().unwrap_or((u64::MAX, String::new()));
                let fr = st.frecord.take();
                let class = match &fr {
                    Some(f) if f["kind"] == "alloc" => {
                        format!("alloc|{}|refused", f["site"].as_str().unwrap_or("?"))
                    }
                    Some(f) if f["kind"] == "cpu" => {
                        format!("cpu|{}", f["phase"].as_str().unwrap_or("?"))
                    }
                    _ => format!(
                        "abort|{}|{}",
                        sig.map(|s| format!("sig{}", s))
                            .or(code.map(|c| format!("exit{}", c)))
                            .unwrap_or_else(|| "?".into()),
                        phase_class(&phase)
                    ),
                };
                // many deaths of one class that is not a known finding: the verdict is settled
                // (violated); cut the run short instead of paying for every further death
                let n_class = {
                    let e = deaths_by_class.entry(class.clone()).or_insert(0);
                    *e += 1;
                    *e
                };
                let cut_short = n_class >= 40 && known.lookup(&class).is_none();
                agg.failures.push((
                    class.clone(),
                    json!({"unit": unit, "case": case_idx, "marker": phase, "record": fr,
                           "exit_code": code, "signal": sig}),
                ));
                if cut_short {
                    println!("NOTE: run cut short after {} worker deaths of class {}", n_class, class);
                    agg.cut_short = true;
                    kill_workers();
                    break;
                }
                let Some(u) = unit else {
                    agg.inconclusive
                        .push(format!("worker {} died outside a unit (code {:?}, signal {:?})", w, code, sig));
                    live -= 1;
                    continue;
                };
                if st.deaths > 3000 {
                    agg.inconclusive
                        .push(format!("worker {} died more than 3000 times; shard abandoned", w));
                    live -= 1;
                    continue;
                }
                let (start, skip) = if case_idx != u64::MAX {
                    (u, case_idx + 1)
                } else {
                    (u + 1, 0)
                };
                st.unit = None;
                st.marker = None;
                let mut c = ctx.clone();
                c.skip = skip;
                if let Err(e) = spawn_worker(id, &c, w, nw, start, skip, tx.clone()) {
                    agg.inconclusive.push(format!("cannot respawn worker: {}", e));
                    live -= 1;
                }
            }
        }
    }
    finish(prop, tier, seed, agg, n_units, t0, triage)
}

/// the marker text is "<class part> ## <free detail>"; only the class part enters the class
fn phase_class(marker: &str) -> String {
    marker.split(" ## ").next().unwrap_or("").to_string()
}

fn finish(
    prop: &dyn Prop,
    tier: Tier,
    seed: u64,
    mut agg: Agg,
    n_units: u64,
    t0: Instant,
    triage: bool,
) -> i32 {
    let id = prop.id();
    let known = load_known(id);
    // classify
    let mut by_class: BTreeMap<String, Vec<Value>> = BTreeMap::new();
    for (c, d) in agg.failures.drain(..) {
        by_class.entry(c).or_default().push(d);
    }
    let mut violations = 0;
    let mut known_hit = Vec::new();
    let mut viol_list = Vec::new();
    for (class, details) in &by_class {
        if let Some(what) = known.lookup(class) {
            println!("KNOWN-FINDING: property={} {} -- {} ({} witnesses)", id, class, what, details.len());
            known_hit.push(json!({"class": class, "witnesses": details.len()}));
            continue;
        }
        violations += 1;
        let h = format!("{:016x}", hash_str(class));
        let dir = format!("{}/replays/{}/{}", VERIF_DIR, id, h);
        let _ = std::fs::create_dir_all(&dir);
        let d0 = &details[0];
        let mut case = json!({"property": id, "tier": tier.name(), "seed": seed, "class": class,
            "witnesses": details.len(), "detail": d0});
        if let Some(hx) = d0.get("input_hex").and_then(|x| x.as_str()) {
            let _ = std::fs::write(format!("{}/input.bin", dir), unhex(hx));
            if let Some(o) = case["detail"].as_object_mut() {
                o.remove("input_hex");
                o.insert("input_file".into(), json!(format!("{}/input.bin", dir)));
            }
        }
        let _ = std::fs::write(
            format!("{}/case.json", dir),
            serde_json::to_string_pretty(&case).unwrap_or_default(),
        );
        if violations <= 20 {
            println!("VIOLATION property={} replay={}/case.json", id, dir);
            println!("  class: {}", class);
            let mut short = d0.clone();
            if let Some(o) = short.as_object_mut() {
                o.remove("input_hex");
            }
            let s: String = short.to_string().chars().take(600).collect();
            println!("  first witness: {}", s);
        }
        viol_list.push(json!({"class": class, "witnesses": details.len(), "replay": format!("{}/case.json", dir)}));
        if triage {
            println!(
                "TRIAGE proposed entry: {}",
                json!({"property": id, "class": class, "status": "open", "what": "?"})
            );
        }
    }
    // coverage verdict
    let mandatory = prop.mandatory(tier);
    let missing: Vec<String> = mandatory
        .iter()
        .filter(|m| agg.features.get(*m).copied().unwrap_or(0) == 0)
        .cloned()
        .collect();
    if !missing.is_empty() && !agg.cut_short {
        agg.inconclusive
            .push(format!("mandatory feature buckets never observed: {:?}", missing));
    }
    if agg.units_done + agg.deaths < n_units && !agg.cut_short {
        agg.inconclusive.push(format!(
            "only {} of {} work units completed",
            agg.units_done, n_units
        ));
    }
    if agg.evals == 0 {
        agg.inconclusive.push("no case was executed".into());
    }
    let distinct = agg.hashes.len() as u64 + agg.dbc;
    let wall = t0.elapsed().as_secs_f64();
    let mut coverage = json!({
        "evaluations": agg.evals,
        "distinct_nontrivial": distinct,
        "rule": prop.rule(),
        "samples": agg.samples,
        "features_observed": agg.features,
        "mandatory_buckets": mandatory,
        "counters": agg.sums,
        "monitor_maxima": agg.maxima,
        "work_units": {"planned": n_units, "completed": agg.units_done},
        "worker_deaths_attributed": agg.deaths,
        "known_findings_hit": known_hit,
        "violation_classes": viol_list,
        "inconclusive_reasons": agg.inconclusive,
        "run_cut_short_after_repeated_worker_deaths": agg.cut_short,
    });
    if let Some(x) = prop.exhaustive(tier) {
        coverage["exhaustive"] = json!(true);
        coverage["exhaustive_subspaces"] = json!(x);
    }
    if coverage["samples"].as_array().map_or(true, |a| a.is_empty()) {
        coverage["samples"] = json!(["(no sample recorded)"]);
    }
    let verdict = if violations > 0 {
        "violated"
    } else if !agg.inconclusive.is_empty() {
        "inconclusive"
    } else {
        "held"
    };
    let ev = json!({
        "property_id": id,
        "tier": tier.name(),
        "seed": seed,
        "level": prop.level(),
        "coverage": coverage,
        "assumptions": prop.assumptions(),
        "wall_s": wall,
        "violations": violations,
        "verdict": verdict,
    });
    let _ = std::fs::create_dir_all(format!("{}/evidence", VERIF_DIR));
    let _ = std::fs::write(
        // VERIF_EVIDENCE_SUFFIX: secondary runs (sanitizer builds) write next to the main file
        format!("{}/evidence/{}{}.json", VERIF_DIR, id, std::env::var("VERIF_EVIDENCE_SUFFIX").unwrap_or_default()),
        serde_json::to_string_pretty(&ev).unwrap_or_default(),
    );
    println!(
        "{} {} seed={} verdict={} evaluations={} distinct_nontrivial={} violations={} known={} deaths={} wall={:.1}s",
        id, tier.name(), seed, verdict, agg.evals, distinct, violations,
        ev["coverage"]["known_findings_hit"].as_array().map_or(0, |a| a.len()), agg.deaths, wall
    );
    for r in &agg.inconclusive {
        println!("INCONCLUSIVE: {}", r);
    }
    match verdict {
        "held" => 0,
        "violated" => 1,
        _ => 2,
    }
}
