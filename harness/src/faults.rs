//! Structure-aware fault atoms for C06: every base file is taken apart by small scanners (zip
//! parts, XML attributes / text nodes / tags, BIFF records, XLSB records, compound-file header /
//! FAT / directory fields, MS-OVBA containers and dir-stream records) and every atom rewrites one
//! structural item to a hostile value.

use crate::enc::cfb::{self, CfbChoices, Entry};
use crate::enc::zipw::{self, Part};
use crate::prng::Rng;

/// Resumption support: the C06 driver numbers the cases through `IDX`; while `IDX < SKIP` (a
/// worker resuming a unit after a death) the expensive container rebuilds are skipped.
pub static IDX: std::sync::atomic::AtomicU64 = std::sync::atomic::AtomicU64::new(0);
pub static SKIP: std::sync::atomic::AtomicU64 = std::sync::atomic::AtomicU64::new(0);
/// Sharding: a unit only runs the cases with `IDX % SHARDS == SHARD`
pub static SHARDS: std::sync::atomic::AtomicU64 = std::sync::atomic::AtomicU64::new(1);
pub static SHARD: std::sync::atomic::AtomicU64 = std::sync::atomic::AtomicU64::new(0);

pub fn lazy(f: impl FnOnce() -> Vec<u8>) -> Vec<u8> {
    use std::sync::atomic::Ordering::Relaxed;
    let i = IDX.load(Relaxed);
    if i < SKIP.load(Relaxed) || i % SHARDS.load(Relaxed) != SHARD.load(Relaxed) {
        Vec::new()
    } else {
        f()
    }
}

pub struct Atom {
    /// closed-vocabulary kind (bucket), e.g. "xml:attr:r=XFE1"
    pub kind: String,
    pub detail: String,
    pub bytes: Vec<u8>,
}

pub const HOSTILE_VALUES: [&str; 16] = ["", "0", "-1", "4294967296", "100000000000000000000", "A0", "ZZZZZZZ1", "1:1", "B2:A1", "XFE1", "A1:XFD1048576", "XFD1048576", "1048577", "999999999", "\u{0}", "s"];

fn hostile_bytes(i: usize) -> Vec<u8> {
    match i {
        16 => "x".repeat(2048).into_bytes(),
        17 => vec![0xFF, 0xFE, 0x80, 0xC0],
        18 => "[".repeat(300).into_bytes(),
        // multi-byte punctuation / symbols outside any string literal (structured references,
        // NBSP, multiplication sign) followed by something that looks like a cell
        19 => "SUM(T[a \u{20ac}])+A1\u{d7}B2\u{a0}+\u{1f600}C3".as_bytes().to_vec(),
        20 => b"&#x110000;&bogus;&#xD800;&".to_vec(),
        21 => b"1E400".to_vec(),
        22 => b"A1:B1".to_vec(),
        23 => b"A1".to_vec(),
        // corners swapped in one dimension only
        24 => b"B1:A3".to_vec(),
        25 => b"A3:B1".to_vec(),
        _ => HOSTILE_VALUES[i].as_bytes().to_vec(),
    }
}
const N_HOSTILE: usize = 26;
/// values that address far cells / huge counts: they make the dense `Range` of a sheet huge (a
/// known finding); on most bases they are left out so that the run is not dominated by aborts
const FAR_VALUES: [usize; 5] = [3, 10, 11, 12, 13];

fn hostile_name(i: usize) -> String {
    match i {
        0 => "empty".into(),
        14 => "nul".into(),
        16 => "2KB".into(),
        17 => "invalid_utf8".into(),
        18 => "brackets300".into(),
        19 => "multibyte_punct".into(),
        20 => "bad_entity".into(),
        21 => "1E400".into(),
        22 => "A1:B1".into(),
        23 => "A1".into(),
        24 => "B1:A3".into(),
        25 => "A3:B1".into(),
        _ => HOSTILE_VALUES[i].into(),
    }
}

// ------------------------------------------------------------------------------------------------
// XML scanning

pub struct XmlItem {
    pub tag: String,
    /// attribute name, or "" for a text node, "<" for the start tag itself, "</" for the end tag
    pub attr: String,
    pub range: std::ops::Range<usize>,
    /// the element directly follows a sibling of the same name (attributes and start tags only):
    /// the first element of a run and the later ones are distinct fault sites
    pub later: bool,
}

pub fn scan_xml(x: &[u8]) -> Vec<XmlItem> {
    let mut out = vec![];
    let mut i = 0;
    let mut last_open: Option<(String, usize)> = None; // tag, end of its start tag
    let mut prev_closed: Option<String> = None; // the element closed last, if nothing was opened since
    while i < x.len() {
        if x[i] != b'<' {
            i += 1;
            continue;
        }
        let start = i;
        if x[i..].starts_with(b"<?") || x[i..].starts_with(b"<!") {
            i += 2;
            while i < x.len() && x[i] != b'>' {
                i += 1;
            }
            continue;
        }
        let closing = x.get(i + 1) == Some(&b'/');
        let mut j = i + if closing { 2 } else { 1 };
        let name_start = j;
        while j < x.len() && !matches!(x[j], b' ' | b'>' | b'/' | b'\t' | b'\n' | b'\r') {
            j += 1;
        }
        let tag = String::from_utf8_lossy(&x[name_start..j]).into_owned();
        if closing {
            if let Some((t, e)) = &last_open {
                if *t == tag && *e < start {
                    out.push(XmlItem { tag: tag.clone(), attr: String::new(), range: *e..start, later: false });
                }
            }
            while j < x.len() && x[j] != b'>' {
                j += 1;
            }
            out.push(XmlItem { tag: tag.clone(), attr: "</".into(), range: start..(j + 1).min(x.len()), later: false });
            prev_closed = Some(tag);
            last_open = None;
            i = j + 1;
            continue;
        }
        let later = prev_closed.as_deref() == Some(tag.as_str());
        // attributes
        loop {
            while j < x.len() && matches!(x[j], b' ' | b'\t' | b'\n' | b'\r') {
                j += 1;
            }
            if j >= x.len() || x[j] == b'>' || x[j] == b'/' {
                break;
            }
            let an = j;
            while j < x.len() && !matches!(x[j], b'=' | b' ' | b'>' | b'/') {
                j += 1;
            }
            let name = String::from_utf8_lossy(&x[an..j]).into_owned();
            if j < x.len() && x[j] == b'=' {
                j += 1;
                if j < x.len() && (x[j] == b'"' || x[j] == b'\'') {
                    let q = x[j];
                    let vs = j + 1;
                    j = vs;
                    while j < x.len() && x[j] != q {
                        j += 1;
                    }
                    out.push(XmlItem { tag: tag.clone(), attr: name, range: vs..j, later });
                    j += 1;
                }
            } else if j == an {
                j += 1; // not an attribute start: avoid looping forever on odd input
            }
        }
        let selfclose = j < x.len() && x[j] == b'/';
        while j < x.len() && x[j] != b'>' {
            j += 1;
        }
        let end = (j + 1).min(x.len());
        out.push(XmlItem { tag: tag.clone(), attr: "<".into(), range: start..end, later });
        prev_closed = if selfclose { Some(tag.clone()) } else { None };
        last_open = if selfclose { None } else { Some((tag, end)) };
        i = end;
    }
    out
}

fn read_u16_at(c: &[u8], at: usize) -> u16 {
    u16::from_le_bytes([c[at], c[at + 1]])
}

fn splice(x: &[u8], r: &std::ops::Range<usize>, with: &[u8]) -> Vec<u8> {
    let mut v = Vec::with_capacity(x.len() + with.len());
    v.extend_from_slice(&x[..r.start]);
    v.extend_from_slice(with);
    v.extend_from_slice(&x[r.end..]);
    v
}

/// XML atoms of one part: per distinct (tag, attribute) the first `per_key` occurrences x every
/// hostile value; text nodes likewise; start tags deleted / duplicated, end tags deleted.
pub fn xml_atoms(part_name: &str, x: &[u8], per_key: usize, full: bool, emit: &mut dyn FnMut(String, String, Vec<u8>)) {
    let items = scan_xml(x);
    let mut seen: std::collections::BTreeMap<(String, String, bool), usize> = Default::default();
    let short = part_name.rsplit('/').next().unwrap_or(part_name).split('.').next().unwrap_or("").trim_end_matches(char::is_numeric).to_string();
    for it in &items {
        let c = seen.entry((it.tag.clone(), it.attr.clone(), it.later)).or_insert(0);
        if *c >= per_key {
            continue;
        }
        *c += 1;
        match it.attr.as_str() {
            "<" => {
                emit(format!("xml:start_tag_deleted:{}:{}", short, it.tag), it.tag.clone(), splice(x, &it.range, b""));
                let tagtxt = x[it.range.clone()].to_vec();
                let mut dup = tagtxt.clone();
                dup.extend_from_slice(&tagtxt);
                emit(format!("xml:start_tag_duplicated:{}:{}", short, it.tag), it.tag.clone(), splice(x, &it.range, &dup));
            }
            "</" => emit(format!("xml:end_tag_deleted:{}:{}", short, it.tag), it.tag.clone(), splice(x, &it.range, b"")),
            "" => {
                for h in (0..N_HOSTILE).filter(|h| full || !FAR_VALUES.contains(h)) {
                    emit(format!("xml:text:{}:{}={}", short, it.tag, hostile_name(h)), format!("<{}>", it.tag), splice(x, &it.range, &hostile_bytes(h)));
                }
            }
            a => {
                if a.starts_with("xmlns") {
                    continue;
                }
                for h in (0..N_HOSTILE).filter(|h| full || !FAR_VALUES.contains(h)) {
                    emit(format!("xml:attr:{}:{}@{}={}", short, it.tag, a, hostile_name(h)), format!("{}@{}", it.tag, a), splice(x, &it.range, &hostile_bytes(h)));
                }
                emit(format!("xml:attr_deleted:{}:{}@{}", short, it.tag, a), format!("{}@{}", it.tag, a), {
                    // remove name="value"
                    let s = it.range.start - a.len() - 2;
                    splice(x, &(s..it.range.end + 1), b"")
                });
            }
        }
    }
}

// ------------------------------------------------------------------------------------------------
// zip containers

pub fn rebuild(parts: &[Part], replace: Option<(usize, Vec<u8>)>, drop: Option<usize>) -> Vec<u8> {
    let mut v: Vec<Part> = vec![];
    for (i, p) in parts.iter().enumerate() {
        if drop == Some(i) {
            continue;
        }
        let data = match &replace {
            Some((j, d)) if *j == i => d.clone(),
            _ => p.data.clone(),
        };
        v.push(Part { name: p.name.clone(), data, deflate: false });
    }
    zipw::build(&v)
}

pub fn zip_atoms(base: &[u8], rng_seed: u64, per_key: usize, full: bool, emit: &mut dyn FnMut(String, String, Vec<u8>)) {
    let Some(parts) = zipw::read_all(base) else { return };
    let mut rng = Rng::new(rng_seed);
    let ext = |n: &str| n.rsplit('.').next().unwrap_or("").to_string();
    let short = |n: &str| {
        let f = n.rsplit('/').next().unwrap_or(n);
        f.trim_end_matches(|c: char| c.is_numeric() || c == '.').split('.').next().unwrap_or("").trim_end_matches(char::is_numeric).to_string() + "." + &ext(n)
    };
    for (i, p) in parts.iter().enumerate() {
        let s = short(&p.name);
        emit(format!("zip:part_dropped:{}", s), p.name.clone(), lazy(|| rebuild(&parts, None, Some(i))));
        emit(format!("zip:part_emptied:{}", s), p.name.clone(), lazy(|| rebuild(&parts, Some((i, vec![])), None)));
        for (nm, cut) in [("1", 1usize), ("mid", p.data.len() / 2), ("len-1", p.data.len().saturating_sub(1))] {
            if cut < p.data.len() {
                emit(format!("zip:part_truncated:{}:{}", s, nm), p.name.clone(), lazy(|| rebuild(&parts, Some((i, p.data[..cut].to_vec())), None)));
            }
        }
        let junk: Vec<u8> = (0..p.data.len().min(4096)).map(|_| rng.next_u32() as u8).collect();
        emit(format!("zip:part_randomised:{}", s), p.name.clone(), lazy(|| rebuild(&parts, Some((i, junk)), None)));
        // structure-aware faults inside the part
        let name = p.name.clone();
        if p.data.starts_with(b"<") || p.data.starts_with(&[0xEF, 0xBB, 0xBF, b'<']) {
            xml_atoms(&p.name, &p.data, per_key, full, &mut |k, d, nd| emit(k, format!("{}:{}", name, d), lazy(|| rebuild(&parts, Some((i, nd)), None))));
        } else if p.name.ends_with(".bin") && !p.name.ends_with("vbaProject.bin") {
            xlsb_atoms(&p.name, &p.data, per_key, full, &mut |k, d, nd| emit(k, format!("{}:{}", name, d), lazy(|| rebuild(&parts, Some((i, nd)), None))));
        } else if p.name.ends_with("vbaProject.bin") {
            cfb_atoms(&p.data, per_key, &mut |k, d, nd| emit(format!("vba:{}", k), format!("{}:{}", name, d), lazy(|| rebuild(&parts, Some((i, nd)), None))));
            vba_atoms(&p.data, None, per_key, &mut |k, d, nd| emit(k, format!("{}:{}", name, d), lazy(|| rebuild(&parts, Some((i, nd)), None))));
        }
    }
    // the archive itself
    for (nm, cut) in [("0", 0usize), ("4", 4), ("mid", base.len() / 2), ("len-22", base.len().saturating_sub(22)), ("len-1", base.len() - 1)] {
        emit(format!("zip:archive_truncated:{}", nm), String::new(), base[..cut.min(base.len())].to_vec());
    }
    let mut b = base.to_vec();
    let n = b.len();
    if n > 30 {
        b[n - 10] ^= 0xFF; // central directory offset
        emit("zip:eocd_corrupted".into(), String::new(), b);
    }
}

// ------------------------------------------------------------------------------------------------
// XLSB records

pub fn xlsb_records(d: &[u8]) -> Vec<(u16, std::ops::Range<usize>, std::ops::Range<usize>)> {
    // (type, header range, payload range)
    let mut v = vec![];
    let mut i = 0;
    while i < d.len() {
        let s = i;
        let mut t = d[i] as u16;
        i += 1;
        if t & 0x80 != 0 {
            if i >= d.len() {
                break;
            }
            t = (t & 0x7F) | ((d[i] as u16 & 0x7F) << 7);
            i += 1;
        }
        let mut l = 0usize;
        for k in 0..4 {
            if i >= d.len() {
                return v;
            }
            let b = d[i];
            i += 1;
            l |= ((b & 0x7F) as usize) << (7 * k);
            if b & 0x80 == 0 {
                break;
            }
        }
        if i + l > d.len() {
            break;
        }
        v.push((t, s..i, i..i + l));
        i += l;
    }
    v
}

pub fn xlsb_atoms(part: &str, d: &[u8], per_key: usize, full: bool, emit: &mut dyn FnMut(String, String, Vec<u8>)) {
    let recs = xlsb_records(d);
    let short = part.rsplit('/').next().unwrap_or(part).split('.').next().unwrap_or("").trim_end_matches(char::is_numeric).to_string();
    let mut seen: std::collections::BTreeMap<u16, usize> = Default::default();
    let hdr = |t: u16, l: usize| {
        let mut h = vec![];
        crate::enc::xlsb::put_type(&mut h, t);
        crate::enc::xlsb::put_len(&mut h, l);
        h
    };
    for (t, h, p) in &recs {
        let c = seen.entry(*t).or_insert(0);
        if *c >= per_key {
            continue;
        }
        *c += 1;
        let key = format!("{}:{:#06x}", short, t);
        let whole = h.start..p.end;
        emit(format!("xlsb:record_deleted:{}", key), String::new(), splice(d, &whole, b""));
        let mut dup = d[whole.clone()].to_vec();
        dup.extend_from_slice(&d[whole.clone()]);
        emit(format!("xlsb:record_duplicated:{}", key), String::new(), splice(d, &whole, &dup));
        // payload truncated (with a consistent length field)
        let plen = p.len();
        let mut cuts: Vec<usize> = (0..plen.min(20)).collect();
        if plen > 0 {
            cuts.push(plen - 1);
        }
        cuts.dedup();
        for cut in cuts {
            let mut r = hdr(*t, cut);
            r.extend_from_slice(&d[p.start..p.start + cut]);
            emit(format!("xlsb:payload_truncated:{}:{}", key, if cut < 20 { cut.to_string() } else { "len-1".into() }), String::new(), splice(d, &whole, &r));
        }
        // declared length far beyond the data
        for (nm, l) in [("0x0FFFFFFF", 0x0FFF_FFFFusize), ("len+1", plen + 1), ("2MiB", 1 << 21)] {
            let mut r = hdr(*t, l);
            r.extend_from_slice(&d[p.clone()]);
            emit(format!("xlsb:length_field:{}:{}", key, nm), String::new(), splice(d, &whole, &r));
        }
        // 32-bit fields at the first offsets
        for off in (0..plen.min(24)).step_by(4) {
            if off + 4 > plen {
                break;
            }
            // row / column fields of row and cell records address far cells (see FAR_VALUES)
            if !full && off == 0 && *t <= 0x000B {
                continue;
            }
            for (nm, v) in [("ffffffff", 0xFFFF_FFFFu32), ("7fffffff", 0x7FFF_FFFF), ("00100000", 0x0010_0000), ("0", 0)] {
                let mut nd = d.to_vec();
                nd[p.start + off..p.start + off + 4].copy_from_slice(&v.to_le_bytes());
                emit(format!("xlsb:field32:{}:+{}={}", key, off, nm), String::new(), nd);
            }
        }
    }
    for (nm, cut) in [("0", 0usize), ("1", 1), ("mid", d.len() / 2), ("len-1", d.len().saturating_sub(1))] {
        emit(format!("xlsb:part_truncated:{}:{}", short, nm), String::new(), d[..cut.min(d.len())].to_vec());
    }
}

// ------------------------------------------------------------------------------------------------
// BIFF records (workbook stream)

pub fn biff_records(s: &[u8]) -> Vec<(u16, usize, usize)> {
    // (type, offset of the record header, payload length)
    let mut v = vec![];
    let mut i = 0;
    while i + 4 <= s.len() {
        let t = u16::from_le_bytes([s[i], s[i + 1]]);
        let l = u16::from_le_bytes([s[i + 2], s[i + 3]]) as usize;
        if i + 4 + l > s.len() {
            break;
        }
        v.push((t, i, l));
        i += 4 + l;
    }
    v
}

pub fn biff_atoms(s: &[u8], per_key: usize, full: bool, emit: &mut dyn FnMut(String, String, Vec<u8>)) {
    let recs = biff_records(s);
    // defined names (Lbl): the reference formula cut after k bytes, the cce field saying so
    for (t, at, l) in recs.iter().filter(|r| r.0 == 0x0018).take(per_key.max(2)) {
        let _ = t;
        if *l < 15 {
            continue;
        }
        let d = &s[*at + 4..*at + 4 + *l];
        let cce = u16::from_le_bytes([d[4], d[5]]) as usize;
        if cce == 0 || cce > *l {
            continue;
        }
        for k in 1..cce.min(12) {
            let mut nd = d[..*l - cce].to_vec();
            nd.extend_from_slice(&d[*l - cce..*l - cce + k]);
            nd[4..6].copy_from_slice(&(k as u16).to_le_bytes());
            let mut r = 0x0018u16.to_le_bytes().to_vec();
            r.extend_from_slice(&(nd.len() as u16).to_le_bytes());
            r.extend_from_slice(&nd);
            emit(format!("biff:lbl_rgce_truncated:{}", k), String::new(), splice(s, &(*at..*at + 4 + *l), &r));
        }
    }
    // the SST (with its CONTINUE records) replaced by a table of three strings whose first string
    // ends `slack` bytes before the end of the SST record, followed by a CONTINUE record of
    // `tiny` bytes and one with the rest
    if let Some(first) = recs.iter().position(|r| r.0 == 0x00FC) {
        let mut last = first;
        while last + 1 < recs.len() && recs[last + 1].0 == 0x003C {
            last += 1;
        }
        let whole = recs[first].1..recs[last].1 + 4 + recs[last].2;
        let strings: [&[u8]; 3] = [b"a", b"bcd", b"ef"];
        let mut body = vec![];
        body.extend_from_slice(&3u32.to_le_bytes());
        body.extend_from_slice(&3u32.to_le_bytes());
        let mut ends = vec![];
        for st in strings {
            body.extend_from_slice(&(st.len() as u16).to_le_bytes());
            body.push(0);
            body.extend_from_slice(st);
            ends.push(body.len());
        }
        for slack in 0..3usize {
            for tiny in 0..3usize {
                let cut1 = (ends[0] + slack).min(body.len());
                let cut2 = (cut1 + tiny).min(body.len());
                let mut r = vec![];
                for (t, part) in [(0x00FCu16, &body[..cut1]), (0x003C, &body[cut1..cut2]), (0x003C, &body[cut2..])] {
                    r.extend_from_slice(&t.to_le_bytes());
                    r.extend_from_slice(&(part.len() as u16).to_le_bytes());
                    r.extend_from_slice(part);
                }
                emit(format!("biff:sst_tiny_continue:slack{}:tiny{}", slack, tiny), String::new(), splice(s, &whole, &r));
            }
        }
    }
    let mut seen: std::collections::BTreeMap<u16, usize> = Default::default();
    for (t, at, l) in &recs {
        let c = seen.entry(*t).or_insert(0);
        if *c >= per_key {
            continue;
        }
        *c += 1;
        let key = format!("{:#06x}", t);
        let whole = *at..*at + 4 + *l;
        emit(format!("biff:record_deleted:{}", key), String::new(), splice(s, &whole, b""));
        let mut dup = s[whole.clone()].to_vec();
        dup.extend_from_slice(&s[whole.clone()]);
        emit(format!("biff:record_duplicated:{}", key), String::new(), splice(s, &whole, &dup));
        // payload truncated to every length 0..24 and len-1 (length field consistent)
        let mut cuts: Vec<usize> = (0..(*l).min(25)).collect();
        if *l > 0 {
            cuts.push(*l - 1);
        }
        cuts.dedup();
        for cut in cuts {
            let mut r = t.to_le_bytes().to_vec();
            r.extend_from_slice(&(cut as u16).to_le_bytes());
            r.extend_from_slice(&s[*at + 4..*at + 4 + cut]);
            emit(format!("biff:payload_truncated:{}:{}", key, if cut < 25 { cut.to_string() } else { "len-1".into() }), String::new(), splice(s, &whole, &r));
        }
        // length field beyond the stream; stream cut inside the record
        let mut nd = s.to_vec();
        nd[*at + 2..*at + 4].copy_from_slice(&0xFFFFu16.to_le_bytes());
        emit(format!("biff:length_field:{}:ffff", key), String::new(), nd);
        for (nm, cut) in [("hdr+2", *at + 2), ("hdr+4", *at + 4), ("mid", *at + 4 + *l / 2), ("end-1", (*at + 4 + *l).saturating_sub(1))] {
            emit(format!("biff:stream_truncated:{}:{}", key, nm), String::new(), s[..cut.min(s.len())].to_vec());
        }
        // a CONTINUE record spliced after it, and an empty CONTINUE
        let mut r = s[whole.clone()].to_vec();
        r.extend_from_slice(&[0x3C, 0, 4, 0, 1, 2, 3, 4]);
        emit(format!("biff:continue_spliced:{}", key), String::new(), splice(s, &whole, &r));
        let mut r = s[whole.clone()].to_vec();
        r.extend_from_slice(&[0x3C, 0, 0, 0]);
        emit(format!("biff:empty_continue_spliced:{}", key), String::new(), splice(s, &whole, &r));
        // 16-bit fields in the first 24 bytes, 32-bit extremes at 4-byte steps
        let cell_rec = matches!(*t, 0x0203 | 0x027E | 0x00BD | 0x00FD | 0x0204 | 0x0205 | 0x0006 | 0x0201 | 0x00BE | 0x0200 | 0x0208);
        for off in (0..(*l).min(24)).step_by(2) {
            if off + 2 > *l {
                break;
            }
            // row / column fields of cell records address far cells (see FAR_VALUES)
            if !full && cell_rec && off < 12 {
                continue;
            }
            for (nm, v) in [("0", 0u16), ("1", 1), ("7fff", 0x7FFF), ("ffff", 0xFFFF)] {
                let mut nd = s.to_vec();
                nd[*at + 4 + off..*at + 6 + off].copy_from_slice(&v.to_le_bytes());
                emit(format!("biff:field16:{}:+{}={}", key, off, nm), String::new(), nd);
            }
        }
        for off in (0..(*l).min(24)).step_by(4) {
            if off + 4 > *l || (!full && cell_rec && off < 12) {
                break;
            }
            let mut nd = s.to_vec();
            nd[*at + 4 + off..*at + 8 + off].copy_from_slice(&0xFFFF_FFFFu32.to_le_bytes());
            emit(format!("biff:field32:{}:+{}=ffffffff", key, off), String::new(), nd);
            let mut nd = s.to_vec();
            nd[*at + 4 + off..*at + 8 + off].copy_from_slice(&0x7FFF_FFFFu32.to_le_bytes());
            emit(format!("biff:field32:{}:+{}=7fffffff", key, off), String::new(), nd);
        }
        // formula tokens: unknown ptg / cce mismatch / truncation after each of the first bytes
        if *t == 0x0006 && *l > 22 {
            let rg = *at + 4 + 22;
            for k in 0..(*l - 22).min(40) {
                let mut nd = s.to_vec();
                nd[rg + k] = 0xFE;
                emit(format!("biff:formula_byte:{}=fe", if k < 12 { k.to_string() } else { "later".into() }), String::new(), nd);
                let mut nd = s.to_vec();
                nd[*at + 4 + 20..*at + 4 + 22].copy_from_slice(&(k as u16).to_le_bytes());
                emit(format!("biff:formula_cce:{}", if k < 12 { k.to_string() } else { "later".into() }), String::new(), nd);
            }
            let mut nd = s.to_vec();
            nd[*at + 4 + 20..*at + 4 + 22].copy_from_slice(&0xFFFFu16.to_le_bytes());
            emit("biff:formula_cce:ffff".into(), String::new(), nd);
        }
    }
    for (nm, cut) in [("0", 0usize), ("1", 1), ("3", 3), ("mid", s.len() / 2), ("len-1", s.len().saturating_sub(1))] {
        emit(format!("biff:stream_truncated:whole:{}", nm), String::new(), s[..cut.min(s.len())].to_vec());
    }
}

// ------------------------------------------------------------------------------------------------
// compound-file containers (faults applied to the raw container bytes)

pub fn cfb_atoms(c: &[u8], per_key: usize, emit: &mut dyn FnMut(String, String, Vec<u8>)) {
    if c.len() < 512 {
        return;
    }
    let ss: usize = if u16::from_le_bytes([c[30], c[31]]) == 0x000C { 4096 } else { 512 };
    let extremes32: [(&str, u32); 9] = [("0", 0), ("1", 1), ("7fffffff", 0x7FFF_FFFF), ("fffffffa", 0xFFFF_FFFA), ("fffffffc", 0xFFFF_FFFC), ("fffffffe", 0xFFFF_FFFE), ("ffffffff", 0xFFFF_FFFF), ("big", 0x0010_0000), ("self", 0xDEAD_0000)];
    let set32 = |at: usize, v: u32| -> Option<Vec<u8>> {
        if at + 4 > c.len() {
            return None;
        }
        let mut n = c.to_vec();
        n[at..at + 4].copy_from_slice(&v.to_le_bytes());
        Some(n)
    };
    // header
    for (name, at) in [("dir_sectors", 40usize), ("fat_sectors", 44), ("dir_start", 48), ("mini_cutoff", 56), ("minifat_start", 60), ("minifat_sectors", 64), ("difat_start", 68), ("difat_sectors", 72), ("difat0", 76), ("difat1", 80), ("difat108", 508)] {
        for (nm, v) in extremes32 {
            if nm == "self" {
                continue;
            }
            if let Some(n) = set32(at, v) {
                emit(format!("cfb:header:{}={}", name, nm), String::new(), n);
            }
        }
    }
    // double fault: a DIFAT chain that loops (an appended sector whose "next DIFAT sector" entry
    // is itself, or sector 0 rewritten that way) combined with every declared DIFAT-sector count
    if c.len() >= 1024 && read_u16_at(c, 30) == 9 {
        let appended = ((c.len() - 512) / 512) as u32;
        for (which, sid) in [("appended", appended), ("sector0", 0u32)] {
            for (nm, declared) in [("asis", None), ("0", Some(0u32)), ("1", Some(1)), ("7fffffff", Some(0x7FFF_FFFF)), ("ffffffff", Some(0xFFFF_FFFF))] {
                let mut n = c.to_vec();
                n.resize(512 + (appended as usize) * 512, 0);
                let at = 512 + sid as usize * 512;
                if sid == appended {
                    n.extend_from_slice(&[0xFF; 512]);
                } else {
                    n[at..at + 512].fill(0xFF);
                }
                n[at + 508..at + 512].copy_from_slice(&sid.to_le_bytes());
                n[68..72].copy_from_slice(&sid.to_le_bytes());
                if let Some(d) = declared {
                    n[72..76].copy_from_slice(&d.to_le_bytes());
                }
                emit(format!("cfb:difat_cycle:{}:declared={}", which, nm), String::new(), n);
            }
        }
    }
    for (name, at, vals) in [("sector_shift", 30usize, [0u16, 7, 0x0C, 0xFFFF]), ("mini_shift", 32, [0, 5, 7, 0xFFFF]), ("major_version", 26, [0, 2, 4, 0xFFFF])] {
        for v in vals {
            let mut n = c.to_vec();
            n[at..at + 2].copy_from_slice(&v.to_le_bytes());
            emit(format!("cfb:header:{}={:#x}", name, v), String::new(), n);
        }
    }
    let mut n = c.to_vec();
    n[0] ^= 0xFF;
    emit("cfb:header:signature".into(), String::new(), n);
    // FAT entries of the first FAT sector
    let fat0 = u32::from_le_bytes([c[76], c[77], c[78], c[79]]) as usize;
    let fat_at = (fat0 + 1) * ss;
    if fat0 < 0xFFFF_FFFA && fat_at + ss <= c.len() {
        let n_entries = (ss / 4).min(if per_key >= 4 { 96 } else { 24 });
        for e in 0..n_entries {
            let at = fat_at + 4 * e;
            for (nm, v) in [("self_loop", e as u32), ("cycle_to_0", 0u32), ("out_of_range", 0x00FF_FFF0), ("freesect", 0xFFFF_FFFF), ("endofchain", 0xFFFF_FFFE), ("next+2", e as u32 + 2)] {
                if let Some(n) = set32(at, v) {
                    emit(format!("cfb:fat_entry:{}", nm), format!("entry {}", e), n);
                }
            }
        }
    }
    // mini FAT (first sector)
    let mf = u32::from_le_bytes([c[60], c[61], c[62], c[63]]) as usize;
    let mf_at = (mf + 1) * ss;
    if mf < 0xFFFF_FFFA && mf_at + ss <= c.len() {
        for e in 0..(ss / 4).min(24) {
            for (nm, v) in [("self_loop", e as u32), ("out_of_range", 0x00FF_FFF0), ("cycle_to_0", 0)] {
                if let Some(n) = set32(mf_at + 4 * e, v) {
                    emit(format!("cfb:minifat_entry:{}", nm), format!("entry {}", e), n);
                }
            }
        }
    }
    // directory entries of the first directory sector
    let ds = u32::from_le_bytes([c[48], c[49], c[50], c[51]]) as usize;
    let dir_at = (ds + 1) * ss;
    if ds < 0xFFFF_FFFA && dir_at + ss <= c.len() {
        for e in 0..(ss / 128).min(8) {
            let b = dir_at + 128 * e;
            for (nm, v) in extremes32 {
                if let Some(n) = set32(b + 116, if nm == "self" { ds as u32 } else { v }) {
                    emit(format!("cfb:dir_entry:start={}", nm), format!("entry {}", e), n);
                }
            }
            for (nm, v) in [("0", 0u32), ("1", 1), ("4095", 4095), ("4096", 4096), ("7fffffff", 0x7FFF_FFFF), ("ffffffff", 0xFFFF_FFFF)] {
                if let Some(n) = set32(b + 120, v) {
                    emit(format!("cfb:dir_entry:size={}", nm), format!("entry {}", e), n);
                }
            }
            if let Some(n) = set32(b + 124, 0xFFFF_FFFF) {
                emit("cfb:dir_entry:size_high=ffffffff".into(), format!("entry {}", e), n);
            }
            // unterminated name, renamed entry
            let mut n = c.to_vec();
            for k in 0..64 {
                n[b + k] = if k % 2 == 0 { b'A' } else { 0 };
            }
            emit("cfb:dir_entry:name_unterminated".into(), format!("entry {}", e), n);
            let mut n = c.to_vec();
            n[b + 66] = 9;
            emit("cfb:dir_entry:type=9".into(), format!("entry {}", e), n);
        }
    }
    // truncation at sector boundaries +- 1
    let mut cuts: Vec<(String, usize)> = vec![("0".into(), 0), ("1".into(), 1), ("8".into(), 8), ("511".into(), 511), ("512".into(), 512), ("513".into(), 513), ("mid".into(), c.len() / 2), ("len-1".into(), c.len() - 1)];
    let n_sect = c.len() / ss;
    for k in 1..n_sect.min(if per_key >= 4 { 40 } else { 8 }) {
        for d in [-1i64, 0, 1] {
            cuts.push((format!("sector{}", if d < 0 { "-1" } else if d > 0 { "+1" } else { "" }), ((k * ss) as i64 + d) as usize));
        }
    }
    for (nm, cut) in cuts {
        if cut < c.len() {
            emit(format!("cfb:truncated:{}", nm), format!("{} bytes", cut), c[..cut].to_vec());
        }
    }
}

// ------------------------------------------------------------------------------------------------
// xls: faults inside the workbook stream, container rebuilt by the reference writer

pub fn xls_atoms(base: &[u8], per_key: usize, full: bool, emit: &mut dyn FnMut(String, String, Vec<u8>)) {
    cfb_atoms(base, per_key, emit);
    let names = ["Workbook", "Book"];
    let Ok(streams) = calamine::verif::cfb_streams_named(base, &names) else { return };
    let Some((name, stream)) = names.iter().zip(streams).find_map(|(n, s)| s.ok().map(|s| (*n, s))) else { return };
    let mut rng = Rng::new(7);
    biff_atoms(&stream, per_key, full, &mut |k, d, ns| {
        emit(k, d, lazy(|| cfb::build(&[Entry::stream(name, ns)], &CfbChoices::default(), &mut rng).bytes))
    });
    // VBA storage of the xls, if any
    vba_atoms(base, Some(name), per_key, emit);
}

// ------------------------------------------------------------------------------------------------
// MS-OVBA

pub fn ovba_container_atoms(c: &[u8], emit: &mut dyn FnMut(String, Vec<u8>)) {
    if c.len() < 4 {
        return;
    }
    let mut n = c.to_vec();
    n[0] = 0;
    emit("signature=0".into(), n);
    // a chunk that decompresses to more than 4096 bytes (literal + maximal copy token = 4099
    // bytes), followed by further copy tokens: the offset/length split is then 13..15 bits wide
    for more in 1..=3usize {
        let mut data = vec![0b0000_0110u8 | if more > 1 { 0b1000 } else { 0 } | if more > 2 { 0b1_0000 } else { 0 }, b'a', 0xFF, 0x0F];
        for _ in 0..more {
            data.extend_from_slice(&[0x07, 0x00]);
        }
        let mut n = vec![0x01u8];
        n.extend_from_slice(&(0xB000u16 | (data.len() as u16 + 2 - 3)).to_le_bytes());
        n.extend_from_slice(&data);
        emit(format!("chunk_past_4096:{}", more), n);
    }
    let h0 = u16::from_le_bytes([c[1], c[2]]);
    for (nm, h) in [("chunk_sig=0", h0 & 0x8FFF), ("chunk_size=0", h0 & 0xF000), ("chunk_size=fff", h0 | 0x0FFF), ("chunk_flag_flipped", h0 ^ 0x8000)] {
        let mut n = c.to_vec();
        n[1..3].copy_from_slice(&h.to_le_bytes());
        emit(nm.into(), n);
    }
    // a copy token reaching before the start of the chunk, a copy token as very first token
    let mut n = vec![0x01u8];
    n.extend_from_slice(&(0xB000u16 | 4).to_le_bytes());
    n.extend_from_slice(&[0x01, 0xFF, 0xFF, b'a', b'b', b'c', b'd']);
    emit("copy_token_before_start".into(), n);
    let mut n = vec![0x01u8];
    n.extend_from_slice(&(0xB000u16 | 5).to_le_bytes());
    n.extend_from_slice(&[0x02, b'a', 0xFF, 0xFF, b'b', b'c', b'd', b'e']);
    emit("copy_token_offset_too_far".into(), n);
    // raw chunk shorter than 4096 bytes
    let mut n = vec![0x01u8];
    n.extend_from_slice(&0x3FFFu16.to_le_bytes());
    n.extend_from_slice(&[b'x'; 100]);
    emit("raw_chunk_short".into(), n);
    emit("empty".into(), vec![]);
    emit("signature_only".into(), vec![1]);
    for cut in (1..c.len().min(24)).chain([c.len() / 2, c.len() - 1]) {
        emit(format!("truncated:{}", if cut < 24 { cut.to_string() } else if cut == c.len() - 1 { "len-1".into() } else { "mid".into() }), c[..cut].to_vec());
    }
}

/// faults in the VBA project of a compound file: the `dir` stream and the first module stream are
/// fetched through calamine's own (unfaulted) reader, decompressed with the reference
/// decompressor, mutated, recompressed and written into a fresh container.
pub fn vba_atoms(container: &[u8], keep_stream: Option<&str>, per_key: usize, emit: &mut dyn FnMut(String, String, Vec<u8>)) {
    let Ok(r) = calamine::verif::cfb_streams_named(container, &["dir"]) else { return };
    let Some(Ok(dirc)) = r.into_iter().next() else { return };
    let Some(dir) = crate::enc::ovba::decompress(&dirc) else { return };
    // module stream names from the reference parse of the dir stream: records 0x001A
    let mut modules: Vec<String> = vec![];
    let mut i = 0;
    while i + 6 <= dir.len() {
        let id = u16::from_le_bytes([dir[i], dir[i + 1]]);
        let l = u32::from_le_bytes([dir[i + 2], dir[i + 3], dir[i + 4], dir[i + 5]]) as usize;
        if id == 0x0009 {
            i += 12;
            continue;
        }
        if id == 0x001A && i + 6 + l <= dir.len() {
            modules.push(String::from_utf8_lossy(&dir[i + 6..i + 6 + l]).into_owned());
        }
        if i + 6 + l > dir.len() {
            break;
        }
        i += 6 + l;
    }
    let mod_names: Vec<&str> = modules.iter().map(|s| s.as_str()).collect();
    let mod_streams: Vec<Vec<u8>> = calamine::verif::cfb_streams_named(container, &mod_names).map(|v| v.into_iter().map(|r| r.unwrap_or_default()).collect()).unwrap_or_default();
    let keep: Option<(String, Vec<u8>)> = keep_stream.and_then(|n| calamine::verif::cfb_streams_named(container, &[n]).ok().and_then(|v| v.into_iter().next()).and_then(|r| r.ok()).map(|s| (n.to_string(), s)));
    let mut rng = Rng::new(11);
    let mut build = |dir_c: Vec<u8>, mods: &[Vec<u8>]| -> Vec<u8> {
        if lazy(|| vec![1]).is_empty() {
            return Vec::new();
        }
        let mut e: Vec<Entry> = vec![];
        let root = if keep.is_some() {
            e.push(Entry { name: "_VBA_PROJECT_CUR".into(), data: None, parent: None });
            Some(0)
        } else {
            None
        };
        let vba = e.len();
        e.push(Entry { name: "VBA".into(), data: None, parent: root });
        e.push(Entry { name: "dir".into(), data: Some(dir_c), parent: Some(vba) });
        for (n, m) in modules.iter().zip(mods.iter()) {
            e.push(Entry { name: n.clone(), data: Some(m.clone()), parent: Some(vba) });
        }
        if let Some((n, s)) = &keep {
            e.push(Entry::stream(n, s.clone()));
        }
        cfb::build(&e, &CfbChoices::default(), &mut rng).bytes
    };
    let mut st = crate::enc::ovba::Stats::default();
    let mut comp = |d: &[u8]| crate::enc::ovba::compress(d, crate::enc::ovba::Strategy::Greedy, &mut Rng::new(3), &mut st);
    // compressed-container faults on the dir stream and on the first module stream
    ovba_container_atoms(&dirc, &mut |k, nd| emit(format!("ovba:dir_container:{}", k), String::new(), build(nd, &mod_streams)));
    if let Some(m0) = mod_streams.first() {
        ovba_container_atoms(m0, &mut |k, nd| {
            let mut ms = mod_streams.clone();
            ms[0] = nd;
            emit(format!("ovba:module_container:{}", k), String::new(), build(dirc.clone(), &ms))
        });
    }
    // dir-stream record faults
    let mut recs: Vec<(u16, usize, usize)> = vec![];
    let mut i = 0;
    while i + 6 <= dir.len() {
        let id = u16::from_le_bytes([dir[i], dir[i + 1]]);
        let l = u32::from_le_bytes([dir[i + 2], dir[i + 3], dir[i + 4], dir[i + 5]]) as usize;
        let l = if id == 0x0009 { 6 } else { l };
        if i + 6 + l > dir.len() {
            break;
        }
        recs.push((id, i, l));
        i += 6 + l;
    }
    let mut seen: std::collections::BTreeMap<u16, usize> = Default::default();
    for (id, at, l) in &recs {
        let c = seen.entry(*id).or_insert(0);
        if *c >= per_key.min(2) {
            continue;
        }
        *c += 1;
        let key = format!("{:#06x}", id);
        for (nm, v) in [("0", 0u32), ("len+1000", *l as u32 + 1000), ("7fffffff", 0x7FFF_FFFF), ("ffffffff", 0xFFFF_FFFF)] {
            let mut nd = dir.clone();
            nd[*at + 2..*at + 6].copy_from_slice(&v.to_le_bytes());
            emit(format!("ovba:dir_record_len:{}={}", key, nm), String::new(), build(comp(&nd), &mod_streams));
        }
        let mut nd = dir.clone();
        nd[*at..*at + 2].copy_from_slice(&0xFFFFu16.to_le_bytes());
        emit(format!("ovba:dir_record_id:{}=ffff", key), String::new(), build(comp(&nd), &mod_streams));
        for (nm, cut) in [("at", *at), ("+1", *at + 1), ("+3", *at + 3), ("+6", *at + 6), ("mid", *at + 6 + *l / 2)] {
            emit(format!("ovba:dir_truncated:{}:{}", key, nm), String::new(), build(comp(&dir[..cut.min(dir.len())]), &mod_streams));
        }
        if *id == 0x0031 {
            // module text offset beyond the stream
            for v in [0x7FFF_FFFFu32, 0xFFFF_FFFF, 100_000] {
                let mut nd = dir.clone();
                nd[*at + 6..*at + 10].copy_from_slice(&v.to_le_bytes());
                emit(format!("ovba:module_offset:{:#x}", v), String::new(), build(comp(&nd), &mod_streams));
            }
        }
        if *id == 0x0003 {
            for v in [0u16, 0xFFFF, 12345] {
                let mut nd = dir.clone();
                nd[*at + 6..*at + 8].copy_from_slice(&v.to_le_bytes());
                emit(format!("ovba:codepage:{}", v), String::new(), build(comp(&nd), &mod_streams));
            }
        }
        if *id == 0x000F {
            for v in [0u16, 0xFFFF, 1000] {
                let mut nd = dir.clone();
                nd[*at + 6..*at + 8].copy_from_slice(&v.to_le_bytes());
                emit(format!("ovba:module_count:{}", v), String::new(), build(comp(&nd), &mod_streams));
            }
        }
    }
}
