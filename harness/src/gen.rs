//! Workload generators for logical workbooks (shared by the file-format properties).
//! Every generated cell value is unique within its workbook, so a misplaced, duplicated or dropped
//! cell is identified exactly.

use crate::model::*;
use crate::prng::Rng;
use std::collections::BTreeMap;

/// the fixed cell-format table used by the positional properties: (format, class)
pub fn basic_xfs() -> Vec<NumFmt> {
    let f = |id: u16, code: Option<&str>, class: FmtClass| NumFmt {
        id,
        code: code.map(|s| s.to_string()),
        class,
    };
    vec![
        f(0, None, FmtClass::Other),
        f(2, None, FmtClass::Other),
        f(14, None, FmtClass::Date),
        f(164, Some("yyyy\\-mm\\-dd\\ hh:mm"), FmtClass::Date),
        f(46, None, FmtClass::Duration),
        f(165, Some("#,##0.00\" days\""), FmtClass::Other),
        f(166, Some("[h]:mm:ss"), FmtClass::Duration),
        f(49, None, FmtClass::Other),
    ]
}

pub struct Limits {
    pub max_row: u32,
    pub max_col: u32,
}

pub const XLSX_LIMITS: Limits = Limits {
    max_row: 1_048_575,
    max_col: 16_383,
};
pub const XLS_LIMITS: Limits = Limits {
    max_row: 65_535,
    max_col: 255,
};

fn pick_row(rng: &mut Rng, lim: &Limits) -> u32 {
    match rng.below(10) {
        0 => 0,
        1 => 1,
        2 => lim.max_row,
        3 => lim.max_row - rng.range_u32(0, 3),
        4 => rng.range_u32(0, lim.max_row),
        _ => rng.range_u32(0, 30),
    }
}

fn pick_col(rng: &mut Rng, lim: &Limits) -> u32 {
    let c = match rng.below(12) {
        0 => 0,
        1 => *rng.pick(&[25u32, 26, 27, 51, 52]),
        2 => *rng.pick(&[701u32, 702, 703, 255, 256]),
        3 => lim.max_col,
        4 => rng.range_u32(0, lim.max_col),
        _ => rng.range_u32(0, 12),
    };
    c.min(lim.max_col)
}

/// sparse positions: dense blocks, boundary columns, far cells. calamine's Range is dense, so the
/// bounding box of one sheet is kept below ~250k cells: far cells are clustered around an anchor,
/// or spread along one thin band of rows or columns.
pub fn gen_positions(rng: &mut Rng, lim: &Limits, n: usize) -> Vec<Pos> {
    let mut set = std::collections::BTreeSet::new();
    match rng.below(6) {
        0 => {
            // a dense block somewhere
            let r0 = pick_row(rng, lim).min(lim.max_row - 12);
            let c0 = pick_col(rng, lim).min(lim.max_col.saturating_sub(8));
            let h = rng.range_u32(1, 8);
            let w = rng.range_u32(1, 6);
            for r in 0..h {
                for c in 0..w {
                    if rng.chance(4, 5) {
                        set.insert((r0 + r, c0 + c));
                    }
                }
            }
        }
        1 => {
            // near the origin with gaps
            for _ in 0..n {
                set.insert((rng.range_u32(0, 14), rng.range_u32(0, 9)));
            }
        }
        2 | 3 => {
            // a window around a far anchor (column boundaries 25/26/701/702, last rows/columns)
            let r0 = pick_row(rng, lim).min(lim.max_row - 40);
            let c0 = pick_col(rng, lim).saturating_sub(rng.range_u32(0, 2)).min(lim.max_col.saturating_sub(30));
            for _ in 0..n {
                set.insert((r0 + rng.range_u32(0, 40), (c0 + rng.range_u32(0, 30)).min(lim.max_col)));
            }
        }
        4 => {
            // thin and tall: one or two adjacent columns, rows far apart
            let c0 = pick_col(rng, lim).min(lim.max_col - 1);
            let r0 = pick_row(rng, lim).min(lim.max_row.saturating_sub(100_000));
            for _ in 0..n {
                let r = match rng.below(3) {
                    0 => r0 + rng.range_u32(0, 20),
                    _ => r0 + rng.range_u32(0, 100_000.min(lim.max_row - r0)),
                };
                set.insert((r, c0 + rng.range_u32(0, 1)));
            }
        }
        _ => {
            // thin and wide: one or two adjacent rows, columns anywhere
            let r0 = pick_row(rng, lim).min(lim.max_row - 1);
            for _ in 0..n {
                set.insert((r0 + rng.range_u32(0, 1), pick_col(rng, lim)));
            }
        }
    }
    set.into_iter().collect()
}

pub fn unique_text(rng: &mut Rng, serial: u64, pos: Pos) -> String {
    let extra = match rng.below(8) {
        0 => " & <tag> \"q\" 'a'",
        1 => "  two  spaces ",
        2 => " é€ 日本 𝄞",
        3 => "\tTab\nNewline",
        // Latin-1 only: stored as 8-bit ("compressed") characters in BIFF8
        4 => " caf\u{e9} Z\u{fc}rich \u{b1}\u{b0}",
        _ => "",
    };
    format!("s{}@{}{}", serial, a1(pos), extra)
}

pub fn gen_value(rng: &mut Rng, serial: u64, pos: Pos) -> Val {
    match rng.below(16) {
        0..=4 => {
            // numbers: unique by construction
            let base = (serial * 16_384 + pos.1 as u64 % 16_384) as f64;
            match rng.below(6) {
                0 => Val::Num(base),
                1 => Val::Num(-base - 0.5),
                2 => Val::Num(base / 1024.0 + 0.001),
                3 => Val::Num(base * 1e12 + 0.25),
                4 => Val::Num((base + 0.125) * 1e-7),
                _ => Val::Num(40_000.0 + serial as f64 + 0.5),
            }
        }
        5..=8 => Val::Str(unique_text(rng, serial, pos)),
        9 => Val::Bool(rng.bool()),
        10 => Val::Err(*rng.pick(&ALL_ERRS)),
        11 => Val::IsoDate(format!("20{:02}-{:02}-{:02}T{:02}:{:02}:{:02}", serial % 100, 1 + serial % 12, 1 + serial % 28, serial % 24, serial % 60, pos.1 % 60)),
        12 => Val::Blank,
        _ => Val::Num(serial as f64 * 100.0 + pos.0 as f64 % 100.0),
    }
}

pub struct GenOpts {
    /// generate cells whose text is the empty string (formats where that reads back uniformly)
    pub empty_strings: bool,
    pub max_sheets: usize,
    pub max_cells: usize,
    pub formulas: bool,
    pub styles: bool,
}

pub fn gen_book(rng: &mut Rng, lim: &Limits, o: &GenOpts) -> MBook {
    let mut b = MBook {
        date1904: rng.chance(1, 4),
        xfs: basic_xfs(),
        ..Default::default()
    };
    let n_sheets = 1 + rng.usize(o.max_sheets);
    let mut serial = rng.below(1000) + 1;
    for i in 0..n_sheets {
        let mut sh = MSheet::new(&format!("Sheet{}{}", i + 1, if rng.chance(1, 5) { " & <x>" } else { "" }));
        let n = rng.usize(o.max_cells + 1);
        let mut cells = BTreeMap::new();
        if !(n == 0 || rng.chance(1, 12)) {
            for p in gen_positions(rng, lim, n) {
                serial += 1;
                let mut c = MCell::v(gen_value(rng, serial, p));
                if o.empty_strings && rng.chance(1, 40) {
                    c.val = Val::Str(String::new());
                }
                if o.styles && rng.chance(1, 2) {
                    c.xf = Some(rng.usize(b.xfs.len()));
                }
                if o.formulas && rng.chance(1, 8) && !matches!(c.val, Val::Blank | Val::IsoDate(_)) {
                    c.formula = Some(format!("A{}+{}", 1 + serial % 50, serial));
                }
                cells.insert(p, c);
            }
        }
        sh.cells = cells;
        b.sheets.push(sh);
    }
    b
}
