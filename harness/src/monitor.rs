//! Generic fault monitors wrapped around every call into calamine:
//! panic / arithmetic-overflow monitor (catch_unwind + hook with backtrace), counting global
//! allocator with a per-case bound and call-site capture, CPU-time watchdog.

use std::alloc::{GlobalAlloc, Layout, System};
use std::cell::{Cell, RefCell};
use std::io::Write;
use std::panic::{catch_unwind, AssertUnwindSafe};
use std::sync::atomic::{AtomicBool, AtomicU64, AtomicUsize, Ordering::Relaxed};

pub const REPO_SRC: &str = "/repo/src/";

// ------------------------------------------------------------------------------------------------
// allocation monitor

pub struct CountingAlloc;

static LIVE: AtomicUsize = AtomicUsize::new(0);
static PEAK: AtomicUsize = AtomicUsize::new(0);
static MAXREQ: AtomicUsize = AtomicUsize::new(0);
static BOUND: AtomicUsize = AtomicUsize::new(usize::MAX);
static TRACKING: AtomicBool = AtomicBool::new(false);
/// requests at or above this size are refused (null => the process aborts)
const HARD_REQ: usize = 1 << 30;
const HARD_LIVE: usize = 4 << 30;

thread_local! {
    static IN_MONITOR: Cell<bool> = const { Cell::new(false) };
    static OVER_SITE: RefCell<Option<String>> = const { RefCell::new(None) };
}

fn note_over_bound(size: usize, live: usize, refused: bool) {
    // capture the call site once per case; re-entrancy guarded (capturing allocates)
    let already = IN_MONITOR.with(|f| f.replace(true));
    if already {
        return;
    }
    let have = OVER_SITE.with(|s| s.borrow().is_some());
    if !have || refused {
        let bt = std::backtrace::Backtrace::force_capture().to_string();
        let site = site_from_backtrace(&bt).unwrap_or_else(|| "?".to_string());
        let txt = format!("{}|req={}|live={}", site, size, live);
        if refused {
            // the process is about to abort: tell the supervisor now
            let line = format!(
                "F {}\n",
                serde_json::json!({"kind":"alloc","site":site,"req":size,"live":live,"refused":true})
            );
            let _ = std::io::stdout().write_all(line.as_bytes());
            let _ = std::io::stdout().flush();
        }
        OVER_SITE.with(|s| {
            if s.borrow().is_none() {
                *s.borrow_mut() = Some(txt)
            }
        });
    }
    IN_MONITOR.with(|f| f.set(false));
}

unsafe impl GlobalAlloc for CountingAlloc {
    unsafe fn alloc(&self, l: Layout) -> *mut u8 {
        if !on_alloc(l.size()) {
            return std::ptr::null_mut();
        }
        let p = System.alloc(l);
        if p.is_null() {
            LIVE.fetch_sub(l.size(), Relaxed);
        }
        p
    }
    unsafe fn alloc_zeroed(&self, l: Layout) -> *mut u8 {
        if !on_alloc(l.size()) {
            return std::ptr::null_mut();
        }
        let p = System.alloc_zeroed(l);
        if p.is_null() {
            LIVE.fetch_sub(l.size(), Relaxed);
        }
        p
    }
    unsafe fn dealloc(&self, p: *mut u8, l: Layout) {
        LIVE.fetch_sub(l.size(), Relaxed);
        System.dealloc(p, l)
    }
    unsafe fn realloc(&self, p: *mut u8, l: Layout, new: usize) -> *mut u8 {
        if new > l.size() {
            if !on_alloc(new - l.size()) {
                return std::ptr::null_mut();
            }
            // the request itself is `new` bytes large
            if TRACKING.load(Relaxed) {
                MAXREQ.fetch_max(new, Relaxed);
                if new > BOUND.load(Relaxed) {
                    note_over_bound(new, LIVE.load(Relaxed), false);
                }
            }
        } else {
            LIVE.fetch_sub(l.size() - new, Relaxed);
        }
        let q = System.realloc(p, l, new);
        if q.is_null() && new > l.size() {
            LIVE.fetch_sub(new - l.size(), Relaxed);
        }
        q
    }
}

#[inline]
fn on_alloc(size: usize) -> bool {
    let live = LIVE.fetch_add(size, Relaxed) + size;
    if !TRACKING.load(Relaxed) {
        return true;
    }
    PEAK.fetch_max(live, Relaxed);
    MAXREQ.fetch_max(size, Relaxed);
    let bound = BOUND.load(Relaxed);
    if size > bound || live > bound {
        // a single request above the bound is refused outright (serving and touching hundreds of
        // MiB per hostile case would dominate the run); so is a live total far above it
        let refused = size > bound || size >= HARD_REQ || live >= HARD_LIVE.min(bound.saturating_add(512 << 20));
        if IN_MONITOR.with(|f| f.get()) {
            return true;
        }
        note_over_bound(size, live, refused);
        if refused {
            LIVE.fetch_sub(size, Relaxed);
            return false;
        }
    }
    true
}

pub struct AllocReading {
    pub peak: usize,
    pub max_req: usize,
    pub over_site: Option<String>,
}

/// start tracking a case with the given bound on peak-live-above-baseline and single requests
pub fn alloc_begin(bound: usize) -> usize {
    let base = LIVE.load(Relaxed);
    PEAK.store(base, Relaxed);
    MAXREQ.store(0, Relaxed);
    OVER_SITE.with(|s| *s.borrow_mut() = None);
    BOUND.store(bound.saturating_add(base), Relaxed);
    TRACKING.store(true, Relaxed);
    base
}

pub fn alloc_end(base: usize) -> AllocReading {
    TRACKING.store(false, Relaxed);
    BOUND.store(usize::MAX, Relaxed);
    AllocReading {
        peak: PEAK.load(Relaxed).saturating_sub(base),
        max_req: MAXREQ.load(Relaxed),
        over_site: OVER_SITE.with(|s| s.borrow_mut().take()),
    }
}

// ------------------------------------------------------------------------------------------------
// CPU monitor

#[cfg(miri)]
pub fn thread_cpu_us() -> u64 {
    0
}

#[cfg(miri)]
fn process_cpu_us() -> u64 {
    0
}

#[cfg(not(miri))]
pub fn thread_cpu_us() -> u64 {
    let mut ts = libc::timespec {
        tv_sec: 0,
        tv_nsec: 0,
    };
    unsafe { libc::clock_gettime(libc::CLOCK_THREAD_CPUTIME_ID, &mut ts) };
    ts.tv_sec as u64 * 1_000_000 + ts.tv_nsec as u64 / 1000
}

#[cfg(not(miri))]
fn process_cpu_us() -> u64 {
    let mut ts = libc::timespec {
        tv_sec: 0,
        tv_nsec: 0,
    };
    unsafe { libc::clock_gettime(libc::CLOCK_PROCESS_CPUTIME_ID, &mut ts) };
    ts.tv_sec as u64 * 1_000_000 + ts.tv_nsec as u64 / 1000
}

/// 0 = no case active; otherwise process CPU time (us) at which the current phase started
static PHASE_START: AtomicU64 = AtomicU64::new(0);
static PHASE_LIMIT_US: AtomicU64 = AtomicU64::new(30_000_000);
static PHASE_NAME: std::sync::Mutex<String> = std::sync::Mutex::new(String::new());

/// names the API call about to run (used to attribute hangs / aborts) and restarts its CPU budget
pub fn phase(name: &str) {
    if let Ok(mut p) = PHASE_NAME.lock() {
        p.clear();
        p.push_str(name);
    }
    PHASE_START.store(process_cpu_us().max(1), Relaxed);
}

pub fn phase_end() {
    PHASE_START.store(0, Relaxed);
}

pub fn current_phase() -> String {
    PHASE_NAME.lock().map(|p| p.clone()).unwrap_or_default()
}

/// a watchdog thread: a phase that burns more than the hard CPU limit is a `cpu` fault; the
/// process reports it and exits with code 97 (the supervisor resumes after the case).
pub fn start_cpu_watchdog(limit_us: u64) {
    PHASE_LIMIT_US.store(limit_us, Relaxed);
    std::thread::spawn(|| loop {
        std::thread::sleep(std::time::Duration::from_millis(250));
        let st = PHASE_START.load(Relaxed);
        if st != 0 {
            let now = process_cpu_us();
            if now.saturating_sub(st) > PHASE_LIMIT_US.load(Relaxed) {
                let line = format!(
                    "F {}\n",
                    serde_json::json!({"kind":"cpu","phase":current_phase(),"cpu_us":now - st})
                );
                let _ = std::io::stdout().write_all(line.as_bytes());
                let _ = std::io::stdout().flush();
                unsafe { libc::_exit(97) };
            }
        }
    });
}

// ------------------------------------------------------------------------------------------------
// panic / overflow monitor

#[derive(Clone, Debug)]
pub struct PanicRecord {
    pub msg: String,
    pub loc: String,
    pub bt: String,
}

thread_local! {
    static LAST_PANIC: RefCell<Option<PanicRecord>> = const { RefCell::new(None) };
    static QUIET: Cell<bool> = const { Cell::new(false) };
}

pub fn install_panic_hook() {
    std::panic::set_hook(Box::new(|info| {
        let msg = if let Some(s) = info.payload().downcast_ref::<&str>() {
            s.to_string()
        } else if let Some(s) = info.payload().downcast_ref::<String>() {
            s.clone()
        } else {
            "<non-string panic payload>".to_string()
        };
        let loc = info
            .location()
            .map(|l| format!("{}:{}", l.file(), l.line()))
            .unwrap_or_default();
        let bt = std::backtrace::Backtrace::force_capture().to_string();
        if !QUIET.with(|q| q.get()) {
            eprintln!("harness panic (outside a guarded call): {} at {}\n{}", msg, loc, bt);
        }
        LAST_PANIC.with(|p| *p.borrow_mut() = Some(PanicRecord { msg, loc, bt }));
    }));
}

/// A fault observed by a monitor during one guarded call.
#[derive(Clone, Debug)]
pub struct Fault {
    /// panic | overflow | alloc | cpu
    pub kind: String,
    /// line-number-free class (see DESIGN §2)
    pub class: String,
    pub detail: String,
}

/// Runs `f` (a call into calamine) under the panic monitor.
pub fn guard<T>(f: impl FnOnce() -> T) -> Result<T, Fault> {
    QUIET.with(|q| q.set(true));
    LAST_PANIC.with(|p| *p.borrow_mut() = None);
    let r = catch_unwind(AssertUnwindSafe(f));
    QUIET.with(|q| q.set(false));
    match r {
        Ok(v) => Ok(v),
        Err(_) => {
            let rec = LAST_PANIC
                .with(|p| p.borrow_mut().take())
                .unwrap_or(PanicRecord {
                    msg: "?".into(),
                    loc: "?".into(),
                    bt: String::new(),
                });
            Err(fault_from_panic(&rec))
        }
    }
}

/// after an unguarded panic unwound out of a unit: the fault, if it originated inside calamine
pub fn take_unguarded_calamine_fault() -> Option<Fault> {
    let rec = LAST_PANIC.with(|p| p.borrow_mut().take())?;
    if rec.loc.starts_with(REPO_SRC) || rec.bt.contains(REPO_SRC) {
        Some(fault_from_panic(&rec))
    } else {
        None
    }
}

pub fn normalise_msg(m: &str) -> String {
    let mut out = String::new();
    let mut prev_digit = false;
    for c in m.chars() {
        if c.is_ascii_digit() {
            if !prev_digit {
                out.push('N');
            }
            prev_digit = true;
        } else {
            prev_digit = false;
            out.push(if c == '\n' { ' ' } else { c });
        }
        if out.len() > 90 {
            break;
        }
    }
    out
}

fn fault_from_panic(rec: &PanicRecord) -> Fault {
    if std::env::var_os("VERIF_DEBUG_BT").is_some() {
        eprintln!("panic: {} at {}\n{}", rec.msg, rec.loc, rec.bt);
    }
    let kind = if rec.msg.starts_with("attempt to ") {
        "overflow"
    } else {
        "panic"
    };
    // 1. the panic location itself when it is in the repository and not a read_* helper
    //    (track_caller: for slice/index/unwrap panics this is the faulting expression);
    // 2. else the innermost non-helper in-repo frame of the backtrace (the call site);
    // 3. else whatever in-repo location there is.
    let loc_site = rec.loc.strip_prefix(REPO_SRC).and_then(|rel| {
        let mut it = rel.split(':');
        let file = it.next()?.to_string();
        let lno: usize = it.next()?.parse().ok()?;
        let (func, text) = source_context(&file, lno);
        Some((is_helper(&file, &func), format!("{}::{}|{}", file, func, text)))
    });
    let site = match &loc_site {
        Some((false, s)) => s.clone(),
        _ => site_from_backtrace(&rec.bt)
            .or(loc_site.map(|x| x.1))
            .unwrap_or_else(|| {
                format!(
                    "{}::?|?",
                    rec.loc.rsplit('/').next().unwrap_or("?").split(':').next().unwrap_or("?")
                )
            }),
    };
    let class = format!("{}|{}|{}", kind, site, normalise_msg(&rec.msg));
    Fault {
        kind: kind.into(),
        class,
        detail: format!("{} at {} :: {}", rec.msg, rec.loc, rec.bt.lines().filter(|l| l.trim_start().starts_with("at ")).take(12).collect::<Vec<_>>().join(";")),
    }
}

/// `<file>::<fn>|<normalised source line>` of the innermost in-repo frame that is not one of the
/// `utils::read_*` / `to_u32` helpers (so that the *call site* is what identifies the class).
pub fn site_from_backtrace(bt: &str) -> Option<String> {
    let mut first_any: Option<String> = None;
    for line in bt.lines() {
        let t = line.trim();
        let Some(rest) = t.strip_prefix("at ") else {
            continue;
        };
        let Some(pos) = rest.find(REPO_SRC) else {
            continue;
        };
        let rel = &rest[pos + REPO_SRC.len()..];
        let mut it = rel.split(':');
        let file = it.next()?;
        let lno: usize = it.next()?.parse().ok()?;
        let (func, text) = source_context(file, lno);
        let site = format!("{}::{}|{}", file, func, text);
        let helper = is_helper(file, &func);
        if file == "verif.rs" {
            continue;
        }
        if helper {
            if first_any.is_none() {
                first_any = Some(site);
            }
            continue;
        }
        return Some(site);
    }
    first_any
}

fn is_helper(file: &str, func: &str) -> bool {
    file == "utils.rs" && (func.starts_with("read_") || func == "to_u32")
}

thread_local! {
    static SRC_CACHE: RefCell<std::collections::HashMap<String, Vec<String>>> = RefCell::new(Default::default());
}

fn source_context(file: &str, lno: usize) -> (String, String) {
    SRC_CACHE.with(|c| {
        let mut c = c.borrow_mut();
        let lines = c.entry(file.to_string()).or_insert_with(|| {
            std::fs::read_to_string(format!("{}{}", REPO_SRC, file))
                .map(|s| s.lines().map(|l| l.to_string()).collect())
                .unwrap_or_default()
        });
        if lno == 0 || lno > lines.len() {
            return ("?".to_string(), "?".to_string());
        }
        let text = lines[lno - 1]
            .split_whitespace()
            .collect::<Vec<_>>()
            .join(" ");
        let mut func = "?".to_string();
        for l in lines[..lno].iter().rev() {
            let t = l.trim_start();
            let t = t
                .strip_prefix("pub(crate) ")
                .or_else(|| t.strip_prefix("pub(super) "))
                .or_else(|| t.strip_prefix("pub "))
                .unwrap_or(t);
            let t = t.strip_prefix("const ").unwrap_or(t);
            let t = t.strip_prefix("unsafe ").unwrap_or(t);
            if let Some(r) = t.strip_prefix("fn ") {
                func = r
                    .chars()
                    .take_while(|c| c.is_alphanumeric() || *c == '_')
                    .collect();
                break;
            }
        }
        (func, text)
    })
}
