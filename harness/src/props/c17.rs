//! C17 — merged regions and tables are reported with the geometry the file declares.

use crate::core::*;
use crate::enc::biff8::{BiffChoices, BiffExtra};
use crate::enc::cfb::CfbChoices;
use crate::enc::xlsx::{self, XlsxChoices};
use crate::model::*;
use crate::monitor::guard;
use crate::prng::{hash_bytes, Rng};
use calamine::{Data, Dimensions, Reader, Xls, Xlsx};
use serde_json::json;
use std::io::Cursor;

pub struct C17;

fn gen_merges(rng: &mut Rng, max_row: u32, max_col: u32, n: usize) -> Vec<Rect> {
    (0..n)
        .map(|_| {
            let r0 = match rng.below(5) {
                0 => 0,
                1 => max_row - rng.range_u32(0, 3),
                2 => rng.range_u32(0, max_row),
                _ => rng.range_u32(0, 50),
            };
            let c0 = match rng.below(5) {
                0 => 0,
                1 => max_col - rng.range_u32(0, 2),
                2 => rng.range_u32(0, max_col),
                _ => rng.range_u32(0, 30),
            };
            let r1 = match rng.below(4) {
                0 => max_row,
                1 => r0,
                _ => (r0 + rng.range_u32(0, 6)).min(max_row),
            };
            let c1 = match rng.below(4) {
                0 => max_col,
                1 => c0,
                _ => (c0 + rng.range_u32(0, 4)).min(max_col),
            };
            ((r0, c0), (r1, c1))
        })
        .collect()
}

fn dims(r: &Rect) -> Dimensions {
    Dimensions::new(r.0, r.1)
}

fn xlsx_case(rng: &mut Rng, out: &mut UnitResult, ctxj: serde_json::Value) {
    let mut book = MBook { xfs: crate::gen::basic_xfs(), ..Default::default() };
    let n_sheets = 1 + rng.usize(3);
    let mut serial = 0u64;
    let mut tno = 0;
    for i in 0..n_sheets {
        let mut sh = MSheet::new(&format!("S{} & <{}>", i + 1, i));
        // a used area
        let (r0, c0) = (rng.range_u32(0, 6), rng.range_u32(0, 4));
        let (h, w) = (rng.range_u32(0, 12), rng.range_u32(1, 8));
        for r in 0..h {
            for c in 0..w {
                if rng.chance(4, 5) {
                    serial += 1;
                    let v = if rng.bool() { Val::Num(serial as f64) } else { Val::Str(format!("v{}", serial)) };
                    sh.cells.insert((r0 + r, c0 + c), MCell::v(v));
                }
            }
        }
        if h == 0 {
            out.feat("sheet_without_cells");
        }
        let nm = match rng.below(4) {
            0 => 0,
            1 => 1,
            _ => rng.usize(12),
        };
        sh.merges = gen_merges(rng, 1_048_575, 16_383, nm);
        out.feat(&format!("merges:{}", nm.min(2)));
        for _ in 0..rng.usize(4) {
            tno += 1;
            let header = *rng.pick(&[None, Some(0u32), Some(1)]);
            let totals = *rng.pick(&[None, Some(0u32), Some(1)]);
            let hr = header.unwrap_or(1);
            let tr = totals.unwrap_or(0);
            let ncols = 1 + rng.usize(8);
            let data_rows = 1 + rng.range_u32(0, 5);
            // inside / overlapping / outside the used range
            let tr0 = match rng.below(3) {
                0 => r0,
                1 => r0 + h.saturating_sub(2),
                _ => r0 + h + 3 + rng.range_u32(0, 5),
            };
            let tc0 = match rng.below(3) {
                0 => c0,
                1 => c0 + w.saturating_sub(1),
                _ => c0 + w + 2,
            };
            let rect = ((tr0, tc0), (tr0 + hr + data_rows + tr - 1, tc0 + ncols as u32 - 1));
            out.feat(&format!("table:header={:?}", header));
            out.feat(&format!("table:totals={:?}", totals));
            sh.tables.push(MTable { name: format!("Table{}", tno), columns: (0..ncols).map(|k| format!("Col {} é&{}", tno, k)).collect(), rect, header_rows: header, totals_rows: totals });
        }
        if sh.tables.len() > 1 {
            out.feat("several_tables_on_one_sheet");
        }
        book.sheets.push(sh);
    }
    let mut ch = XlsxChoices::random(rng);
    // sheet parts that own tables keep their canonical case (enc::xlsx); table parts, styles, workbook parts do not
    ch.name_case = rng.chance(1, 3);
    if ch.name_case {
        out.feat("part_name_case");
    }
    let enc = xlsx::encode(&book, &ch, rng);
    let fail = |out: &mut UnitResult, class: String, d: serde_json::Value| out.fail(class, json!({"ctx": ctxj, "detail": d, "input_hex": hex(&enc.bytes)}));
    let mut wb = match guard(|| Xlsx::new(Cursor::new(enc.bytes.clone()))) {
        Ok(Ok(w)) => w,
        Ok(Err(e)) => return fail(out, format!("c17|xlsx|open_error|{}", super::c01::err_variant(&e)), json!(format!("{:?}", e))),
        Err(f) => return fail(out, format!("c17|xlsx|open|fault:{}", f.class), json!(f.detail)),
    };
    // ---- merged regions through the five accessors
    match guard(|| wb.load_merged_regions()) {
        Ok(Ok(())) => {}
        Ok(Err(e)) => return fail(out, format!("c17|xlsx|load_merged_regions_error|{}", super::c01::err_variant(&e)), json!(format!("{:?}", e))),
        Err(f) => return fail(out, format!("c17|xlsx|load_merged_regions|fault:{}", f.class), json!(f.detail)),
    }
    let all: Vec<(String, Dimensions)> = wb.merged_regions().iter().map(|(n, _, d)| (n.clone(), *d)).collect();
    let want_all: Vec<(String, Dimensions)> = book.sheets.iter().flat_map(|s| s.merges.iter().map(move |m| (s.name.clone(), dims(m)))).collect();
    if all != want_all {
        return fail(out, "c17|xlsx|merged_regions".into(), json!({"got": format!("{:?}", all), "want": format!("{:?}", want_all)}));
    }
    for (i, sh) in book.sheets.iter().enumerate() {
        let want: Vec<Dimensions> = sh.merges.iter().map(dims).collect();
        let by: Vec<Dimensions> = wb.merged_regions_by_sheet(&sh.name).iter().map(|x| *x.2).collect();
        if by != want {
            return fail(out, "c17|xlsx|merged_regions_by_sheet".into(), json!({"sheet": sh.name, "got": format!("{:?}", by), "want": format!("{:?}", want)}));
        }
        for (which, r) in [("worksheet_merge_cells", guard(|| wb.worksheet_merge_cells(&sh.name))), ("worksheet_merge_cells_at", guard(|| wb.worksheet_merge_cells_at(i)))] {
            match r {
                Ok(Some(Ok(v))) if v == want => {}
                Ok(other) => return fail(out, format!("c17|xlsx|{}", which), json!({"sheet": sh.name, "got": format!("{:?}", other.map(|x| x.map_err(|e| format!("{:?}", e)))), "want": format!("{:?}", want)})),
                Err(f) => return fail(out, format!("c17|xlsx|{}|fault:{}", which, f.class), json!(f.detail)),
            }
        }
        out.sum("merge_lists_compared", 4);
    }
    if guard(|| wb.worksheet_merge_cells("no such sheet")).map(|o| o.is_some()).unwrap_or(true) {
        return fail(out, "c17|xlsx|merge_cells_unknown_sheet".into(), json!(null));
    }
    // ---- tables
    match guard(|| wb.load_tables()) {
        Ok(Ok(())) => {}
        Ok(Err(e)) => return fail(out, format!("c17|xlsx|load_tables_error|{}", super::c01::err_variant(&e)), json!(format!("{:?}", e))),
        Err(f) => return fail(out, format!("c17|xlsx|load_tables|fault:{}", f.class), json!(f.detail)),
    }
    let names: Vec<String> = wb.table_names().into_iter().cloned().collect();
    let want_names: Vec<String> = book.sheets.iter().flat_map(|s| s.tables.iter().map(|t| t.name.clone())).collect();
    if names != want_names {
        return fail(out, "c17|xlsx|table_names".into(), json!({"got": names, "want": want_names}));
    }
    for sh in &book.sheets {
        let in_sheet: Vec<String> = wb.table_names_in_sheet(&sh.name).into_iter().cloned().collect();
        if in_sheet != sh.tables.iter().map(|t| t.name.clone()).collect::<Vec<_>>() {
            return fail(out, "c17|xlsx|table_names_in_sheet".into(), json!({"sheet": sh.name, "got": in_sheet}));
        }
        let values = xlsx::expect_values(&book, sh);
        for t in &sh.tables {
            let hr = t.header_rows.unwrap_or(1);
            let tr = t.totals_rows.unwrap_or(0);
            let start = (t.rect.0 .0 + hr, t.rect.0 .1);
            let end = (t.rect.1 .0 - tr, t.rect.1 .1);
            let tag = format!("header={:?},totals={:?}", t.header_rows, t.totals_rows);
            let got = match guard(|| wb.table_by_name(&t.name)) {
                Ok(Ok(tb)) => tb,
                Ok(Err(e)) => return fail(out, format!("c17|xlsx|table_by_name_error|{}", super::c01::err_variant(&e)), json!(format!("{:?}", e))),
                Err(f) => return fail(out, format!("c17|xlsx|table_by_name|fault:{}|{}", f.class, tag), json!(f.detail)),
            };
            if got.name() != t.name || got.sheet_name() != sh.name || got.columns() != &t.columns[..] {
                return fail(out, "c17|xlsx|table_metadata".into(), json!({"table": t.name, "got": [got.name(), got.sheet_name()], "columns": got.columns()}));
            }
            let d = got.data();
            if d.start() != Some(start) || d.end() != Some(end) {
                return fail(out, format!("c17|xlsx|table_data_range|{}", tag), json!({"table": t.name, "got": format!("{:?}..{:?}", d.start(), d.end()), "want": format!("{:?}..{:?}", start, end)}));
            }
            for r in start.0..=end.0 {
                for c in start.1..=end.1 {
                    let want = values.cells.get(&(r, c)).cloned().unwrap_or(Data::Empty);
                    if d.get_value((r, c)) != Some(&want) {
                        return fail(out, format!("c17|xlsx|table_data_value|{}", tag), json!({"table": t.name, "at": a1((r, c)), "got": format!("{:?}", d.get_value((r, c))), "want": format!("{:?}", want)}));
                    }
                }
            }
            // the borrowed variant
            match guard(|| wb.table_by_name_ref(&t.name).map(|tb| (tb.data().start(), tb.data().end(), tb.data().cells().map(|(_, _, v)| Data::from(v.clone())).collect::<Vec<_>>()))) {
                Ok(Ok((s, e, cells))) => {
                    if s != Some(start) || e != Some(end) || !cells.iter().zip(d.cells()).all(|(a, b)| a == b.2) {
                        return fail(out, format!("c17|xlsx|table_by_name_ref_differs|{}", tag), json!({"table": t.name}));
                    }
                }
                Ok(Err(e)) => return fail(out, format!("c17|xlsx|table_by_name_ref_error|{}", super::c01::err_variant(&e)), json!(format!("{:?}", e))),
                Err(f) => return fail(out, format!("c17|xlsx|table_by_name_ref|fault:{}", f.class), json!(f.detail)),
            }
            out.sum("tables_compared", 1);
        }
    }
    out.case(Some(hash_bytes(&enc.bytes)));
}

fn xls_case(rng: &mut Rng, out: &mut UnitResult, ctxj: serde_json::Value) {
    let mut book = MBook { xfs: crate::gen::basic_xfs(), ..Default::default() };
    for i in 0..1 + rng.usize(3) {
        let mut sh = MSheet::new(&format!("M{}", i + 1));
        sh.cells.insert((0, 0), MCell::v(Val::Num(i as f64)));
        let nm = match rng.below(5) {
            0 => 0,
            1 => 1,
            2 => 1027 + rng.usize(40), // more than one MERGECELLS record even at 1026 per record
            _ => rng.usize(12),
        };
        sh.merges = gen_merges(rng, 65_535, 255, nm);
        if nm > 1026 {
            out.feat("xls_merges>1026");
        }
        book.sheets.push(sh);
    }
    let bc = BiffChoices::random(rng);
    let (bytes, enc) = crate::enc::xls_file(&book, &bc, &BiffExtra::default(), &CfbChoices::default(), &[], rng);
    if enc.counts.get("rec:MERGECELLS").copied().unwrap_or(0) > book.sheets.iter().filter(|s| !s.merges.is_empty()).count() as u64 {
        out.feat("xls_merges_split_over_records");
    }
    let fail = |out: &mut UnitResult, class: String, d: serde_json::Value| out.fail(class, json!({"ctx": ctxj, "detail": d, "input_hex": hex(&bytes)}));
    let wb = match guard(|| Xls::new(Cursor::new(bytes.clone()))) {
        Ok(Ok(w)) => w,
        Ok(Err(e)) => return fail(out, format!("c17|xls|open_error|{}", super::c01::err_variant(&e)), json!(format!("{:?}", e))),
        Err(f) => return fail(out, format!("c17|xls|open|fault:{}", f.class), json!(f.detail)),
    };
    for (i, sh) in book.sheets.iter().enumerate() {
        let want: Vec<Dimensions> = sh.merges.iter().map(dims).collect();
        for (which, got) in [("worksheet_merge_cells", wb.worksheet_merge_cells(&sh.name)), ("worksheet_merge_cells_at", wb.worksheet_merge_cells_at(i))] {
            if got.as_ref() != Some(&want) {
                let sym = match &got {
                    None => "none",
                    Some(g) if g.len() != want.len() => "count",
                    _ => "corners_or_order",
                };
                return fail(out, format!("c17|xls|{}|{}", which, sym), json!({"sheet": sh.name, "got_len": got.map(|g| g.len()), "want_len": want.len()}));
            }
        }
        out.sum("merge_lists_compared", 2);
    }
    if wb.worksheet_merge_cells("no such sheet").is_some() || wb.worksheet_merge_cells_at(book.sheets.len()).is_some() {
        return fail(out, "c17|xls|merge_cells_unknown_sheet".into(), json!(null));
    }
    out.case(Some(hash_bytes(&bytes)));
}

impl Prop for C17 {
    fn id(&self) -> &'static str {
        "C17"
    }
    fn rule(&self) -> String {
        "xlsx workbooks with 1..3 sheets, 0..11 merged regions each at arbitrary coordinates up to XFD1048576 and 0..3 tables per sheet (headerRowCount and totalsRowCount each absent/0/1, 1..8 columns, inside / overlapping / outside the used range, sheets without any cell) read through all five merged-region accessors and load_tables/table_names/table_names_in_sheet/table_by_name/table_by_name_ref; xls workbooks with 0..1066 merged regions per sheet (split over several MERGECELLS records) read through worksheet_merge_cells and worksheet_merge_cells_at. Distinct by hash of the file.".into()
    }
    fn assumptions(&self) -> Vec<String> {
        vec!["trusted base: the xlsx and BIFF8 reference encoders; tables always have at least one data row; the insertRow attribute is not generated".into()]
    }
    fn units(&self, tier: Tier) -> u64 {
        tier.pick(16, 160)
    }
    fn mandatory(&self, _t: Tier) -> Vec<String> {
        ["merges:0", "merges:1", "merges:2", "table:header=None", "table:header=Some(0)", "table:header=Some(1)", "table:totals=None", "table:totals=Some(0)", "table:totals=Some(1)", "several_tables_on_one_sheet", "sheet_without_cells", "xls_merges>1026", "xls_merges_split_over_records"]
            .iter().map(|s| s.to_string()).collect()
    }
    fn run_unit(&self, ctx: &Ctx, unit: u64, out: &mut UnitResult) {
        let mut rng = Rng::derive(ctx.seed, "c17", unit);
        for i in 0..ctx.tier.pick(30, 150) {
            let cj = json!({"unit": unit, "case": i});
            if i % 3 == 2 {
                xls_case(&mut rng, out, cj);
            } else {
                xlsx_case(&mut rng, out, cj);
            }
        }
        out.sample(json!({"unit": unit, "note": "see rule; every case carries 1..3 sheets with merges and (xlsx) tables"}));
    }
}
