//! C09 — serde deserialization maps rows to records faithfully.
//! Oracle: a reference conversion table written from the statement and the rustdoc, applied to
//! the model range; the real RangeDeserializer is iterated to exhaustion with size_hint checked
//! at every step.

use crate::core::*;
use crate::monitor::guard;
use crate::prng::{hash_str, Rng};
use calamine::{CellErrorType, Data, DeError, ExcelDateTime, ExcelDateTimeType, Range, RangeDeserializerBuilder};
use serde::de::DeserializeOwned;
use serde_derive::Deserialize;
use serde_json::json;
use std::collections::{BTreeMap, HashMap};

pub struct C09;

#[derive(Clone, Copy, Debug, PartialEq)]
enum K {
    F64,
    I64,
    U8,
    Str,
    Bool,
    OptF64,
    OptStr,
    OptI64,
    OptBool,
    Any,
    HelperF64,
    HelperI64,
    HelperI64Str,
    HelperF64Str,
    Ignored,
}

#[derive(Clone, Debug, PartialEq)]
enum V {
    F(u64),
    I(i64),
    U(u8),
    S(String),
    B(bool),
    N,
    D(String),
    /// the statement does not fix the outcome (the as_i64 / as_f64 helpers use their own
    /// parsers, whose treatment of an explicit plus sign is not documented): anything is accepted
    Wild,
}

fn v_eq(a: &[V], b: &[V]) -> bool {
    a.len() == b.len() && a.iter().zip(b.iter()).all(|(x, y)| *x == V::Wild || *y == V::Wild || x == y)
}

#[derive(Clone, Debug, PartialEq)]
enum E {
    Cell(String, (u32, u32)),
    Custom,
}

fn vd(d: &Data) -> V {
    V::D(format!("{:?}", d))
}

/// the documented conversion of one cell to one target kind
fn conv(d: &Data, k: K, pos: (u32, u32)) -> Result<V, E> {
    if let Data::Error(e) = d {
        return Err(E::Cell(format!("{:?}", e), pos));
    }
    let num = |to: K| -> Result<V, E> {
        match d {
            Data::Float(v) => Ok(match to {
                K::F64 => V::F(v.to_bits()),
                K::I64 => V::I(*v as i64),
                _ => V::U(*v as u8),
            }),
            Data::Int(v) => Ok(match to {
                K::F64 => V::F((*v as f64).to_bits()),
                K::I64 => V::I(*v),
                _ => V::U(*v as u8),
            }),
            Data::String(s) => match to {
                K::F64 => s.parse::<f64>().map(|x| V::F(x.to_bits())).map_err(|_| E::Custom),
                K::I64 => s.parse::<i64>().map(V::I).map_err(|_| E::Custom),
                _ => s.parse::<u8>().map(V::U).map_err(|_| E::Custom),
            },
            _ => Err(E::Custom),
        }
    };
    let string = || -> Result<V, E> {
        Ok(V::S(match d {
            Data::String(s) | Data::DateTimeIso(s) | Data::DurationIso(s) => s.clone(),
            Data::Empty => String::new(),
            Data::Float(v) => v.to_string(),
            Data::Int(v) => v.to_string(),
            Data::Bool(b) => b.to_string(),
            Data::DateTime(v) => v.as_f64().to_string(),
            Data::Error(_) => unreachable!(),
        }))
    };
    let boolean = || -> Result<V, E> {
        Ok(V::B(match d {
            Data::Bool(b) => *b,
            Data::String(s) => match s.as_str() {
                "TRUE" | "true" | "True" => true,
                "FALSE" | "false" | "False" => false,
                _ => return Err(E::Custom),
            },
            Data::Empty => false,
            Data::Float(v) => *v != 0.0,
            Data::Int(v) => *v != 0,
            Data::DateTime(v) => v.as_f64() != 0.0,
            Data::DateTimeIso(_) | Data::DurationIso(_) => true,
            Data::Error(_) => unreachable!(),
        }))
    };
    let opt = |inner: K| -> Result<V, E> {
        if matches!(d, Data::Empty) {
            Ok(V::N)
        } else {
            conv(d, inner, pos)
        }
    };
    match k {
        K::F64 | K::I64 | K::U8 => num(k),
        K::Str => string(),
        K::Bool => boolean(),
        K::OptF64 => opt(K::F64),
        K::OptStr => opt(K::Str),
        K::OptI64 => opt(K::I64),
        K::OptBool => opt(K::Bool),
        K::Any => Ok(match d {
            Data::DateTime(v) => vd(&Data::Float(v.as_f64())),
            Data::DateTimeIso(s) | Data::DurationIso(s) => vd(&Data::String(s.clone())),
            other => vd(other),
        }),
        K::HelperF64 => Ok(match d {
            // deserialize_as_f64_or_none: Data::deserialize then as_f64
            Data::Int(v) => V::F((*v as f64).to_bits()),
            Data::Float(v) => V::F(v.to_bits()),
            Data::DateTime(v) => V::F(v.as_f64().to_bits()),
            Data::Bool(b) => V::F((*b as i32 as f64).to_bits()),
            Data::String(s) if s.starts_with('+') => V::Wild,
            Data::String(s) | Data::DateTimeIso(s) | Data::DurationIso(s) => match s.parse::<f64>() {
                // only plain decimal strings are generated, on which fast-float and std agree
                Ok(x) => V::F(x.to_bits()),
                Err(_) => V::N,
            },
            Data::Empty => V::N,
            Data::Error(_) => unreachable!(),
        }),
        K::HelperI64 | K::HelperI64Str | K::HelperF64Str => {
            // deserialize_as_{i64,f64}_or_{none,string}: Data::deserialize (date-times arrive as
            // floats, ISO strings as strings), then as_i64 / as_f64, else None / Err(to_string)
            let as_str = |s: &String| -> Result<V, E> {
                if s.starts_with('+') {
                    return Ok(V::Wild);
                }
                Ok(match k {
                    K::HelperI64 => s.parse::<i64>().map(V::I).unwrap_or(V::N),
                    K::HelperI64Str => s.parse::<i64>().map(V::I).unwrap_or_else(|_| V::S(s.clone())),
                    _ => s.parse::<f64>().map(|x| V::F(x.to_bits())).unwrap_or_else(|_| V::S(s.clone())),
                })
            };
            let int = k != K::HelperF64Str;
            match d {
                Data::Int(v) => Ok(if int { V::I(*v) } else { V::F((*v as f64).to_bits()) }),
                Data::Float(v) => Ok(if int { V::I(*v as i64) } else { V::F(v.to_bits()) }),
                Data::DateTime(v) => Ok(if int { V::I(v.as_f64() as i64) } else { V::F(v.as_f64().to_bits()) }),
                Data::Bool(b) => Ok(if int { V::I(*b as i64) } else { V::F((*b as i32 as f64).to_bits()) }),
                Data::String(s) | Data::DateTimeIso(s) | Data::DurationIso(s) => as_str(s),
                Data::Empty => Ok(V::N),
                Data::Error(_) => unreachable!(),
            }
        }
        K::Ignored => Ok(V::N),
    }
}

// ------------------------------------------------------------------------------------------------
// target shapes

trait Target: DeserializeOwned {
    const NAME: &'static str;
    /// kinds per selected column (positional targets); None for by-name targets
    fn kinds(width: usize) -> Option<Vec<K>>;
    fn to_v(&self) -> Vec<V>;
    fn by_name() -> bool {
        false
    }
    /// by-name targets: expected record from (header, cell, pos) triples of non-empty cells
    fn expect_named(_cols: &[(String, &Data, (u32, u32))]) -> Result<Vec<V>, E> {
        unreachable!()
    }
}

impl Target for Vec<Data> {
    const NAME: &'static str = "Vec<Data>";
    fn kinds(w: usize) -> Option<Vec<K>> {
        Some(vec![K::Any; w])
    }
    fn to_v(&self) -> Vec<V> {
        self.iter().map(vd).collect()
    }
}
impl Target for Vec<String> {
    const NAME: &'static str = "Vec<String>";
    fn kinds(w: usize) -> Option<Vec<K>> {
        Some(vec![K::Str; w])
    }
    fn to_v(&self) -> Vec<V> {
        self.iter().map(|s| V::S(s.clone())).collect()
    }
}
impl Target for Vec<Option<f64>> {
    const NAME: &'static str = "Vec<Option<f64>>";
    fn kinds(w: usize) -> Option<Vec<K>> {
        Some(vec![K::OptF64; w])
    }
    fn to_v(&self) -> Vec<V> {
        self.iter().map(|x| x.map_or(V::N, |v| V::F(v.to_bits()))).collect()
    }
}
impl Target for (f64,) {
    const NAME: &'static str = "(f64,)";
    fn kinds(w: usize) -> Option<Vec<K>> {
        (w == 1).then(|| vec![K::F64])
    }
    fn to_v(&self) -> Vec<V> {
        vec![V::F(self.0.to_bits())]
    }
}
impl Target for (String, f64) {
    const NAME: &'static str = "(String,f64)";
    fn kinds(w: usize) -> Option<Vec<K>> {
        (w == 2).then(|| vec![K::Str, K::F64])
    }
    fn to_v(&self) -> Vec<V> {
        vec![V::S(self.0.clone()), V::F(self.1.to_bits())]
    }
}
impl Target for (i64, String, bool) {
    const NAME: &'static str = "(i64,String,bool)";
    fn kinds(w: usize) -> Option<Vec<K>> {
        (w == 3).then(|| vec![K::I64, K::Str, K::Bool])
    }
    fn to_v(&self) -> Vec<V> {
        vec![V::I(self.0), V::S(self.1.clone()), V::B(self.2)]
    }
}
impl Target for (Option<f64>, Option<String>, u8, bool) {
    const NAME: &'static str = "(Option<f64>,Option<String>,u8,bool)";
    fn kinds(w: usize) -> Option<Vec<K>> {
        (w == 4).then(|| vec![K::OptF64, K::OptStr, K::U8, K::Bool])
    }
    fn to_v(&self) -> Vec<V> {
        vec![
            self.0.map_or(V::N, |v| V::F(v.to_bits())),
            self.1.clone().map_or(V::N, V::S),
            V::U(self.2),
            V::B(self.3),
        ]
    }
}
impl Target for (Option<i64>, Option<bool>, String, String, Option<String>) {
    const NAME: &'static str = "(Option<i64>,Option<bool>,String,String,Option<String>)";
    fn kinds(w: usize) -> Option<Vec<K>> {
        (w == 5).then(|| vec![K::OptI64, K::OptBool, K::Str, K::Str, K::OptStr])
    }
    fn to_v(&self) -> Vec<V> {
        vec![
            self.0.map_or(V::N, V::I),
            self.1.map_or(V::N, V::B),
            V::S(self.2.clone()),
            V::S(self.3.clone()),
            self.4.clone().map_or(V::N, V::S),
        ]
    }
}
impl Target for HashMap<String, Data> {
    const NAME: &'static str = "HashMap<String,Data>";
    fn kinds(_: usize) -> Option<Vec<K>> {
        None
    }
    fn by_name() -> bool {
        true
    }
    fn to_v(&self) -> Vec<V> {
        let b: BTreeMap<_, _> = self.iter().collect();
        b.into_iter().flat_map(|(k, v)| [V::S(k.clone()), vd(v)]).collect()
    }
    fn expect_named(cols: &[(String, &Data, (u32, u32))]) -> Result<Vec<V>, E> {
        let mut b = BTreeMap::new();
        for (h, d, p) in cols {
            b.insert(h.clone(), conv(d, K::Any, *p)?);
        }
        Ok(b.into_iter().flat_map(|(k, v)| [V::S(k), v]).collect())
    }
}
impl Target for BTreeMap<String, String> {
    const NAME: &'static str = "BTreeMap<String,String>";
    fn kinds(_: usize) -> Option<Vec<K>> {
        None
    }
    fn by_name() -> bool {
        true
    }
    fn to_v(&self) -> Vec<V> {
        self.iter().flat_map(|(k, v)| [V::S(k.clone()), V::S(v.clone())]).collect()
    }
    fn expect_named(cols: &[(String, &Data, (u32, u32))]) -> Result<Vec<V>, E> {
        let mut b = BTreeMap::new();
        for (h, d, p) in cols {
            b.insert(h.clone(), conv(d, K::Str, *p)?);
        }
        Ok(b.into_iter().flat_map(|(k, v)| [V::S(k), v]).collect())
    }
}

#[derive(Deserialize, Debug)]
struct Rec {
    alpha: Option<f64>,
    beta: Option<String>,
    #[serde(rename = "gamma g")]
    gamma: Option<i64>,
    delta: Option<bool>,
    #[serde(default, deserialize_with = "calamine::deserialize_as_f64_or_none")]
    eps: Option<f64>,
    #[serde(default, deserialize_with = "calamine::deserialize_as_i64_or_none")]
    zeta: Option<i64>,
    #[serde(rename = "Eta H", default = "absent_i", deserialize_with = "calamine::deserialize_as_i64_or_string")]
    eta: Result<i64, String>,
    #[serde(default = "absent_f", deserialize_with = "calamine::deserialize_as_f64_or_string")]
    theta: Result<f64, String>,
}
const ABSENT: &str = "<absent>";
fn absent_i() -> Result<i64, String> {
    Err(ABSENT.to_string())
}
fn absent_f() -> Result<f64, String> {
    Err(ABSENT.to_string())
}
const REC_FIELDS: [(&str, K); 8] = [
    ("alpha", K::OptF64),
    ("beta", K::OptStr),
    ("gamma g", K::OptI64),
    ("delta", K::OptBool),
    ("eps", K::HelperF64),
    ("zeta", K::HelperI64),
    ("Eta H", K::HelperI64Str),
    ("theta", K::HelperF64Str),
];

impl Target for Rec {
    const NAME: &'static str = "struct Rec";
    fn kinds(_: usize) -> Option<Vec<K>> {
        None
    }
    fn by_name() -> bool {
        true
    }
    fn to_v(&self) -> Vec<V> {
        vec![
            self.alpha.map_or(V::N, |v| V::F(v.to_bits())),
            self.beta.clone().map_or(V::N, V::S),
            self.gamma.map_or(V::N, V::I),
            self.delta.map_or(V::N, V::B),
            self.eps.map_or(V::N, |v| V::F(v.to_bits())),
            self.zeta.map_or(V::N, V::I),
            match &self.eta {
                Ok(v) => V::I(*v),
                Err(e) if e == ABSENT => V::N,
                Err(e) => V::S(e.clone()),
            },
            match &self.theta {
                Ok(v) => V::F(v.to_bits()),
                Err(e) if e == ABSENT => V::N,
                Err(e) => V::S(e.clone()),
            },
        ]
    }
    fn expect_named(cols: &[(String, &Data, (u32, u32))]) -> Result<Vec<V>, E> {
        let mut r = vec![V::N; 8];
        for (h, d, p) in cols {
            match REC_FIELDS.iter().position(|f| f.0 == h) {
                Some(i) => r[i] = conv(d, REC_FIELDS[i].1, *p)?,
                None => {
                    conv(d, K::Any, *p)?; // ignored column: only an error cell can fail it
                }
            }
        }
        Ok(r)
    }
}

// ------------------------------------------------------------------------------------------------

#[derive(Clone, Debug)]
enum Cfg {
    NoHeaders,
    All,
    /// requested names (possibly padded), in request order
    Custom(Vec<String>),
    DeserializeHeaders,
}

struct Sheet {
    range: Range<Data>,
    start: (u32, u32),
    h: usize,
    w: usize,
}

fn cell<'a>(s: &'a Sheet, r: usize, c: usize) -> &'a Data {
    s.range.get((r, c)).expect("model cell")
}

fn gen_cell(rng: &mut Rng, serial: &mut u64, allow_err: bool) -> Data {
    *serial += 1;
    let k = *serial;
    match rng.below(16) {
        0 => Data::Int(k as i64 * 7 - 50),
        1 => match k % 4 {
            // non-zero with magnitude below one (true as a boolean, 0 as an integer), and both zeros
            0 => Data::Float(1.0 / (k as f64 + 1.0)),
            1 => Data::Float(-0.25 / k as f64),
            2 if k % 8 == 2 => Data::Float(if k % 16 == 2 { 0.0 } else { -0.0 }),
            2 => Data::Float(if k % 16 == 6 { f64::NAN } else { f64::INFINITY }),
            _ => Data::Float(k as f64 + 0.25),
        },
        2 => Data::Float(-(k as f64) * 1000.5),
        3 => Data::Float(300.0 + k as f64), // > u8::MAX: saturating cast
        4 => Data::String(match k % 7 {
            0 => "9223372036854775808".to_string(), // i64::MAX + 1
            1 => "-9223372036854775808".to_string(),
            2 => format!("+{}", k % 300), // an explicit plus sign is accepted by the integer targets
            _ => format!("{}", (k as i64 % 60) - 30),
        }),
        5 => Data::String(format!("{}.5", k)),
        6 => Data::String(["TRUE", "true", "True", "FALSE", "false", "False"][(k % 6) as usize].to_string()),
        7 => Data::String(if k % 5 == 0 { String::new() } else { format!("text {}", k) }),
        8 => Data::Bool(k % 2 == 0),
        9 | 10 => Data::Empty,
        11 => Data::DateTime(ExcelDateTime::new(if k % 5 == 0 { 0.5 / k as f64 } else { 40000.0 + k as f64 }, ExcelDateTimeType::DateTime, false)),
        12 => Data::DateTimeIso(format!("2021-03-04T05:06:{:02}", k % 60)),
        13 => Data::DurationIso(format!("PT{}H", k % 24)),
        14 if allow_err => Data::Error(
            [CellErrorType::Div0, CellErrorType::NA, CellErrorType::Name, CellErrorType::Null, CellErrorType::Num, CellErrorType::Ref, CellErrorType::Value, CellErrorType::GettingData][(k % 8) as usize].clone(),
        ),
        _ => Data::Int(k as i64),
    }
}

fn gen_sheet(rng: &mut Rng, w: usize, headers: Option<&[String]>, pad: bool) -> Sheet {
    let start = match rng.below(4) {
        0 => (0, 0),
        1 => (rng.range_u32(0, 20), rng.range_u32(0, 20)),
        2 => (1_048_000 + rng.range_u32(0, 500), 16_000 + rng.range_u32(0, 300)),
        _ => (u32::MAX - 100, u32::MAX - 50),
    };
    let h = rng.usize(10) + 1;
    let mut range: Range<Data> = Range::new(start, (start.0 + h as u32 - 1, start.1 + w as u32 - 1));
    let mut serial = rng.below(1000);
    for r in 0..h {
        for c in 0..w {
            let v = if r == 0 && headers.is_some() {
                let name = &headers.unwrap()[c];
                if pad && rng.chance(1, 3) {
                    Data::String(format!("{}{}{}", ["", " ", "  ", "\u{a0}", "\u{3000} "][rng.usize(5)], name, [" ", "\t", " \n", "\u{2003}", "\u{b}\u{a0}"][rng.usize(5)]))
                } else {
                    Data::String(name.clone())
                }
            } else {
                {
                    let allow = rng.chance(1, 2);
                    gen_cell(rng, &mut serial, allow)
                }
            };
            range.set_value((start.0 + r as u32, start.1 + c as u32), v);
        }
    }
    Sheet { range, start, h, w }
}

/// iterate the real deserializer and compare with `expected` item by item
fn run_target<T: Target>(s: &Sheet, cfg: &Cfg, out: &mut UnitResult, ctx_json: &serde_json::Value) {
    let cfg_name = match cfg {
        Cfg::NoHeaders => "no_headers",
        Cfg::All => "all_headers",
        Cfg::Custom(_) => "custom_headers",
        Cfg::DeserializeHeaders => "deserialize_headers",
    };
    out.feat(cfg_name);
    out.feat(&format!("target:{}", T::NAME));
    let class = |sym: &str| format!("c09|{}|{}|{}", cfg_name, T::NAME, sym);
    // ---- expected
    let header_row: Option<Vec<String>> = match cfg {
        Cfg::NoHeaders => None,
        _ => Some((0..s.w).map(|c| match conv(cell(s, 0, c), K::Str, (s.start.0, s.start.1 + c as u32)) {
            Ok(V::S(x)) => x,
            _ => String::new(),
        }).collect()),
    };
    // selected column indexes, or the expected open error
    let selected: Result<Vec<usize>, String> = match cfg {
        Cfg::NoHeaders | Cfg::All => Ok((0..s.w).collect()),
        Cfg::Custom(names) => names
            .iter()
            .map(|n| {
                header_row.as_ref().unwrap().iter().position(|h| h.trim() == n.trim()).ok_or(n.trim().to_string())
            })
            .collect(),
        Cfg::DeserializeHeaders => REC_FIELDS
            .iter()
            .map(|(n, _)| header_row.as_ref().unwrap().iter().position(|h| h.trim() == *n).ok_or(n.to_string()))
            .collect(),
    };
    let first_data = if header_row.is_some() { 1 } else { 0 };
    // ---- actual
    let names_ref: Vec<&str>;
    let opened = guard(|| match cfg {
        Cfg::NoHeaders => RangeDeserializerBuilder::new().has_headers(false).from_range::<Data, T>(&s.range),
        Cfg::All => {
            if s.w % 2 == 0 {
                s.range.deserialize::<T>()
            } else {
                RangeDeserializerBuilder::new().has_headers(true).from_range::<Data, T>(&s.range)
            }
        }
        Cfg::Custom(n) => RangeDeserializerBuilder::with_headers(n).from_range::<Data, T>(&s.range),
        Cfg::DeserializeHeaders => RangeDeserializerBuilder::with_deserialize_headers::<Rec>().from_range::<Data, T>(&s.range),
    });
    names_ref = vec![];
    let _ = names_ref;
    let opened = match opened {
        Ok(o) => o,
        Err(f) => {
            out.fail(class(&format!("open:fault:{}", f.class)), ctx_json.clone());
            return;
        }
    };
    let mut it = match (opened, &selected) {
        (Ok(it), Ok(_)) => it,
        (Err(DeError::HeaderNotFound(h)), Err(want)) => {
            out.feat("header_not_found");
            if h != *want {
                out.fail(class("header_not_found_name"), json!({"ctx": ctx_json, "got": h, "want": want}));
            }
            return;
        }
        (Ok(_), Err(want)) => {
            out.fail(class("missing_header_accepted"), json!({"ctx": ctx_json, "want": want}));
            return;
        }
        (Err(e), Ok(_)) => {
            out.fail(class("open_error"), json!({"ctx": ctx_json, "err": e.to_string()}));
            return;
        }
        (Err(e), Err(_)) => {
            out.fail(class("open_error_kind"), json!({"ctx": ctx_json, "err": e.to_string()}));
            return;
        }
    };
    let selected = selected.unwrap();
    let n_items = s.h - first_data;
    let mut got_items = 0usize;
    // every other case advances with a mix of next() and nth(k)
    let adv = hash_str(&ctx_json.to_string()) % 2;
    let mut plan = hash_str(&ctx_json.to_string());
    loop {
        let remaining = n_items.saturating_sub(got_items);
        let (lo, hi) = it.size_hint();
        if lo > remaining || hi.map_or(false, |h| h < remaining) {
            out.fail(class("size_hint"), json!({"ctx": ctx_json, "hint": [lo, hi], "remaining": remaining, "step": got_items}));
            return;
        }
        // how the next item is fetched: next(), or nth(k) (what skip / step_by are built on)
        plan = plan.wrapping_mul(6364136223846793005).wrapping_add(1442695040888963407);
        let skip = if adv == 0 { 0 } else { [0usize, 0, 1, 2, 3, 0][(plan >> 33) as usize % 6] };
        let item = match guard(|| if skip == 0 { it.next() } else { it.nth(skip) }) {
            Ok(i) => i,
            Err(f) => {
                out.fail(class(&format!("next:fault:{}", f.class)), ctx_json.clone());
                return;
            }
        };
        if skip > 0 {
            out.feat("iterator:nth");
        }
        let Some(item) = item else {
            if remaining > skip {
                out.fail(class("item_count"), json!({"ctx": ctx_json, "ended_after": got_items, "nth": skip, "want": n_items}));
                return;
            }
            got_items = n_items;
            break;
        };
        got_items += skip;
        if got_items >= n_items {
            out.fail(class("too_many_items"), ctx_json.clone());
            return;
        }
        let r = first_data + got_items;
        let abs_row = s.start.0 + r as u32;
        // expected record for row r
        let expected: Result<Vec<V>, E> = if T::by_name() && header_row.is_some() {
            let cols: Vec<(String, &Data, (u32, u32))> = selected
                .iter()
                .filter(|c| !matches!(cell(s, r, **c), Data::Empty))
                .map(|c| (header_row.as_ref().unwrap()[*c].clone(), cell(s, r, *c), (abs_row, s.start.1 + *c as u32)))
                .collect();
            T::expect_named(&cols)
        } else {
            match T::kinds(selected.len()) {
                Some(kinds) => selected
                    .iter()
                    .zip(kinds.iter())
                    .map(|(c, k)| conv(cell(s, r, *c), *k, (abs_row, s.start.1 + *c as u32)))
                    .collect(),
                None => return, // by-name target without headers: not exercised
            }
        };
        out.sum("records_compared", 1);
        match (item, expected) {
            (Ok(v), Ok(want)) => {
                if !v_eq(&v.to_v(), &want) {
                    out.fail(class("record_value"), json!({"ctx": ctx_json, "row": r, "got": format!("{:?}", v.to_v()), "want": format!("{:?}", want)}));
                    return;
                }
            }
            (Err(DeError::CellError { err, pos }), Err(E::Cell(k, p))) => {
                out.feat("cell_error");
                if format!("{:?}", err) != k {
                    out.fail(class("cell_error_kind"), json!({"ctx": ctx_json, "row": r}));
                    return;
                }
                if pos != p {
                    out.fail(class("cell_error_pos"), json!({"ctx": ctx_json, "row": r, "got": [pos.0, pos.1], "want": [p.0, p.1]}));
                    return;
                }
            }
            (Err(DeError::Custom(_)), Err(E::Custom)) => out.feat("conversion_error"),
            (Ok(v), Err(e)) => {
                out.fail(class("error_expected"), json!({"ctx": ctx_json, "row": r, "got": format!("{:?}", v.to_v()), "want": format!("{:?}", e)}));
                return;
            }
            (Err(e), want) => {
                out.fail(class("unexpected_error"), json!({"ctx": ctx_json, "row": r, "got": e.to_string(), "want": format!("{:?}", want)}));
                return;
            }
        }
        got_items += 1;
    }
    if got_items != n_items {
        out.fail(class("item_count"), json!({"ctx": ctx_json, "got": got_items, "want": n_items}));
    }
    let (lo, hi) = it.size_hint();
    if lo != 0 || hi.map_or(false, |h| h != 0) && hi.is_some() && hi != Some(0) {
        out.fail(class("size_hint_after_end"), json!({"ctx": ctx_json, "hint": [lo, hi]}));
    }
}

fn one_case(rng: &mut Rng, out: &mut UnitResult) {
    let names_pool: Vec<String> = ["alpha", "beta", "gamma g", "delta", "eps", "zeta", "Eta H", "theta", "iota", "k&l"]
        .iter().map(|s| s.to_string()).collect();
    let which = rng.below(10);
    let mut hashed = String::new();
    macro_rules! run {
        ($t:ty, $s:expr, $cfg:expr) => {{
            let ctx = json!({"range": format!("{:?}", $s.range), "cfg": format!("{:?}", $cfg), "target": <$t>::NAME});
            hashed = format!("{}{:?}{:?}", <$t>::NAME, $s.range, $cfg);
            if out.samples.is_empty() {
                out.sample(json!({"target": <$t>::NAME, "cfg": format!("{:?}", $cfg), "start": [$s.start.0, $s.start.1], "size": [$s.h, $s.w], "first_row": format!("{:?}", $s.range.rows().next())}));
            }
            run_target::<$t>(&$s, &$cfg, out, &ctx);
        }};
    }
    match which {
        0 => {
            // no headers, positional
            let w = rng.usize(6) + 1;
            let s = gen_sheet(rng, w, None, false);
            match rng.below(4) {
                0 => run!(Vec<Data>, s, Cfg::NoHeaders),
                1 => run!(Vec<String>, s, Cfg::NoHeaders),
                2 => run!(Vec<Option<f64>>, s, Cfg::NoHeaders),
                _ => match w {
                    1 => run!((f64,), s, Cfg::NoHeaders),
                    2 => run!((String, f64), s, Cfg::NoHeaders),
                    3 => run!((i64, String, bool), s, Cfg::NoHeaders),
                    4 => run!((Option<f64>, Option<String>, u8, bool), s, Cfg::NoHeaders),
                    5 => run!((Option<i64>, Option<bool>, String, String, Option<String>), s, Cfg::NoHeaders),
                    _ => run!(Vec<Data>, s, Cfg::NoHeaders),
                },
            }
        }
        1..=3 => {
            // all headers
            let w = rng.usize(7) + 1;
            let mut names = names_pool.clone();
            rng.shuffle(&mut names);
            names.truncate(w);
            let s = gen_sheet(rng, w, Some(&names), false);
            match rng.below(6) {
                0 => run!(Vec<Data>, s, Cfg::All),
                1 => run!(HashMap<String, Data>, s, Cfg::All),
                2 => run!(BTreeMap<String, String>, s, Cfg::All),
                3 | 4 => run!(Rec, s, Cfg::All),
                _ => match w {
                    2 => run!((String, f64), s, Cfg::All),
                    3 => run!((i64, String, bool), s, Cfg::All),
                    _ => run!(Vec<Option<f64>>, s, Cfg::All),
                },
            }
        }
        4..=7 => {
            // custom header subset in any order, padded both in the sheet and in the request
            let w = rng.usize(7) + 2;
            let mut names = names_pool.clone();
            rng.shuffle(&mut names);
            names.truncate(w);
            let s = gen_sheet(rng, w, Some(&names), true);
            let mut req = names.clone();
            rng.shuffle(&mut req);
            let k = match rng.below(3) {
                0 => rng.usize(5) + 1,
                _ => rng.usize(w) + 1,
            }
            .min(w);
            req.truncate(k);
            if rng.chance(1, 6) {
                let at = rng.usize(req.len());
                req[at] = "no such header".to_string();
            }
            let req: Vec<String> = req.into_iter().map(|n| if rng.chance(1, 3) { format!(" {}  ", n) } else { n }).collect();
            let cfg = Cfg::Custom(req.clone());
            match rng.below(5) {
                0 | 1 => run!(Vec<Data>, s, cfg),
                2 => run!(Vec<String>, s, cfg),
                3 => match req.len() {
                    1 => run!((f64,), s, cfg),
                    2 => run!((String, f64), s, cfg),
                    3 => run!((i64, String, bool), s, cfg),
                    4 => run!((Option<f64>, Option<String>, u8, bool), s, cfg),
                    5 => run!((Option<i64>, Option<bool>, String, String, Option<String>), s, cfg),
                    _ => run!(Vec<Option<f64>>, s, cfg),
                },
                _ => run!(Vec<Option<f64>>, s, cfg),
            }
        }
        8 => {
            // struct field names as headers
            let w = rng.usize(3) + 8;
            let mut names = names_pool.clone();
            if rng.chance(1, 5) {
                names.remove(rng.usize(8)); // a field is missing -> HeaderNotFound
            }
            let extra: Vec<String> = names.split_off(8.min(names.len()));
            let mut cols = names;
            for e in extra.into_iter().take(w.saturating_sub(cols.len())) {
                cols.push(e);
            }
            rng.shuffle(&mut cols);
            let w = cols.len();
            let s = gen_sheet(rng, w, Some(&cols), false);
            run!(Rec, s, Cfg::DeserializeHeaders)
        }
        _ => {
            // empty range and single-row ranges
            let s = if rng.bool() {
                Sheet { range: Range::empty(), start: (0, 0), h: 0, w: 0 }
            } else {
                let names = vec!["alpha".to_string(), "beta".to_string()];
                let mut s = gen_sheet(rng, 2, Some(&names), false);
                s.range = s.range.range(s.start, (s.start.0, s.start.1 + 1));
                s.h = 1;
                s
            };
            out.feat(if s.h == 0 { "empty_range" } else { "header_only" });
            if s.h == 0 {
                // an empty range has no header row either
                let ctx = json!({"range": "empty"});
                for cfg in [Cfg::NoHeaders, Cfg::All] {
                    let class = |sym: &str| format!("c09|empty_range|{}", sym);
                    let r = guard(|| match cfg {
                        Cfg::NoHeaders => RangeDeserializerBuilder::new().has_headers(false).from_range::<Data, Vec<Data>>(&s.range),
                        _ => s.range.deserialize::<Vec<Data>>(),
                    });
                    match r {
                        Ok(Ok(mut it)) => {
                            let (lo, hi) = it.size_hint();
                            if lo != 0 {
                                out.fail(class("size_hint"), json!({"ctx": ctx, "hint": [lo, hi]}));
                            }
                            if it.next().is_some() {
                                out.fail(class("item_count"), ctx.clone());
                            }
                        }
                        Ok(Err(e)) => out.fail(class("open_error"), json!({"err": e.to_string()})),
                        Err(f) => out.fail(class(&format!("fault:{}", f.class)), ctx.clone()),
                    }
                }
                hashed = "empty".into();
            } else {
                run!(Vec<Data>, s, Cfg::All)
            }
        }
    }
    out.case(Some(hash_str(&hashed)));
}

impl Prop for C09 {
    fn id(&self) -> &'static str {
        "C09"
    }
    fn rule(&self) -> String {
        "random Range<Data> (origin anywhere incl. near u32::MAX, <= 10 x 8, cells of every Data variant incl. error cells, numeric/boolean strings, empties) x header configuration (none / all / padded subset in any order / struct field names / missing header) x 12 compiled target shapes (Vec<Data>, Vec<String>, Vec<Option<f64>>, 5 tuples, HashMap<String,Data>, BTreeMap<String,String>, struct with Option/renamed/deserialize_with fields); the real iterator is drained with size_hint checked at every step and every record / error compared with a reference conversion table. Non-trivial = every generated case (each has >= 1 record or an expected open error); distinct by hash of (target, range, configuration).".into()
    }
    fn assumptions(&self) -> Vec<String> {
        vec![
            "header names are unique within a sheet; by-name targets are only exercised with a header row".into(),
            "numeric strings are plain decimals (on which std and fast-float parsing agree)".into(),
            "conversion failures other than error cells are only required to be DeError::Custom (message not compared)".into(),
            "tuple targets are given exactly as many selected columns as their arity".into(),
        ]
    }
    fn units(&self, tier: Tier) -> u64 {
        tier.pick(16, 320)
    }
    fn mandatory(&self, _t: Tier) -> Vec<String> {
        let mut v: Vec<String> = ["no_headers", "all_headers", "custom_headers", "deserialize_headers", "header_not_found", "cell_error", "iterator:nth", "conversion_error", "empty_range", "header_only"]
            .iter().map(|s| s.to_string()).collect();
        for t in ["Vec<Data>", "Vec<String>", "Vec<Option<f64>>", "(f64,)", "(String,f64)", "(i64,String,bool)", "HashMap<String,Data>", "BTreeMap<String,String>", "struct Rec"] {
            v.push(format!("target:{}", t));
        }
        v
    }
    fn run_unit(&self, ctx: &Ctx, unit: u64, out: &mut UnitResult) {
        let n = ctx.tier.pick(400, 1600);
        for i in 0..n {
            let mut rng = Rng::derive(ctx.seed, "c09", unit * 100_000 + i);
            one_case(&mut rng, out);
        }
    }
}
