pub mod c05;

use crate::core::Prop;

pub fn all() -> Vec<Box<dyn Prop>> {
    vec![Box::new(c05::C05)]
}

pub fn by_id(id: &str) -> Option<Box<dyn Prop>> {
    all().into_iter().find(|p| p.id() == id)
}
