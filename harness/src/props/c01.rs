//! C01 — XLSX: every cell reads back at its position, with its value and type, independent of the
//! physical encoding. encode -> parse with calamine -> compare with the model, for several
//! encodings of the same logical workbook; plus an exhaustive sweep of the cell-name parser.

use crate::core::*;
use crate::enc::xlsx::{self, XlsxChoices};
use crate::gen;
use crate::model::*;
use crate::monitor::guard;
use crate::prng::{hash_bytes, Rng};
use calamine::{Data, Reader, ReaderRef, Xlsx};
use serde_json::json;
use std::io::Cursor;

pub struct C01;

pub fn err_variant<E: std::fmt::Debug>(e: &E) -> String {
    let s = format!("{:?}", e);
    s.split(|c: char| !c.is_alphanumeric() && c != '_').next().unwrap_or("?").to_string()
}

/// opens the bytes and compares every sheet with the model; returns failures as (class, detail)
pub fn check_xlsx(book: &MBook, enc: &xlsx::Encoded, tag: &str, out: &mut UnitResult, ctx: &serde_json::Value) -> bool {
    let mut ok = true;
    let mut fail = |out: &mut UnitResult, class: String, detail: serde_json::Value| {
        out.fail(class, json!({"ctx": ctx, "detail": detail, "input_hex": hex(&enc.bytes)}));
    };
    let opened = guard(|| Xlsx::new(Cursor::new(enc.bytes.clone())));
    let mut wb = match opened {
        Ok(Ok(w)) => w,
        Ok(Err(e)) => {
            fail(out, format!("{}|open_error|{}", tag, err_variant(&e)), json!(format!("{:?}", e)));
            return false;
        }
        Err(f) => {
            fail(out, format!("{}|open|fault:{}", tag, f.class), json!(f.detail));
            return false;
        }
    };
    for (si, sh) in book.sheets.iter().enumerate() {
        if sh.kind != SheetKind::Work {
            continue;
        }
        let exp = xlsx::expect_values(book, sh);
        let got = guard(|| wb.worksheet_range(&sh.name));
        let got = match got {
            Ok(Ok(r)) => r,
            Ok(Err(e)) => {
                fail(out, format!("{}|read_error|{}", tag, err_variant(&e)), json!(format!("{:?}", e)));
                ok = false;
                continue;
            }
            Err(f) => {
                fail(out, format!("{}|read|fault:{}", tag, f.class), json!(f.detail));
                ok = false;
                continue;
            }
        };
        out.sum("cells_compared", exp.cells.len() as u64);
        if let Some((sym, detail)) = compare_range(&got, &exp, false) {
            // attribute the symptom to the physical form of the offending cell when there is one
            let cell_feat = exp
                .cells
                .keys()
                .find(|p| detail.contains(&format!("({})", a1(**p))))
                .and_then(|p| enc.cell_feats.get(&(si, *p)))
                .cloned()
                .unwrap_or_else(|| "-".into());
            fail(out, format!("{}|{}|{}", tag, sym, cell_feat), json!({"sheet": sh.name, "what": detail}));
            ok = false;
            continue;
        }
        // the borrowed-string path must agree cell by cell
        let r2 = guard(|| {
            wb.worksheet_range_ref(&sh.name).map(|r| {
                let (s, e) = (r.start(), r.end());
                let cells: Vec<Data> = r.cells().map(|(_, _, v)| Data::from(v.clone())).collect();
                (s, e, cells)
            })
        });
        match r2 {
            Ok(Ok((s, e, cells))) => {
                let same = s == got.start() && e == got.end() && cells.len() == got.cells().count() && cells.iter().zip(got.cells()).all(|(a, b)| a == b.2);
                if !same {
                    fail(out, format!("{}|range_ref_differs", tag), json!({"sheet": sh.name}));
                    ok = false;
                }
            }
            Ok(Err(e)) => {
                fail(out, format!("{}|range_ref_error|{}", tag, err_variant(&e)), json!(format!("{:?}", e)));
                ok = false;
            }
            Err(f) => {
                fail(out, format!("{}|range_ref|fault:{}", tag, f.class), json!(f.detail));
                ok = false;
            }
        }
    }
    ok
}

fn sweep_cell_names(unit: u64, out: &mut UnitResult) {
    // all 16384 columns x selected rows, upper and lower case, against the reference bijection
    let rows: [u32; 8] = [1, 2, 9, 10, 99, 100, 65_536, 1_048_576];
    let lo = unit * 1024;
    for c in lo..lo + 1024 {
        let c = c as u32;
        for r in rows {
            let name = format!("{}{}", col_name(c), r);
            let lower = name.to_ascii_lowercase();
            for n in [&name, &lower] {
                match guard(|| calamine::verif::xlsx_cell_name_to_pos(n.as_bytes())) {
                    Ok(Ok(p)) if p == (r - 1, c) => {}
                    Ok(other) => out.fail("c01|cell_name_to_pos|value", json!({"name": n, "got": format!("{:?}", other)})),
                    Err(f) => out.fail(format!("c01|cell_name_to_pos|fault:{}", f.class), json!({"name": n})),
                }
            }
            match guard(|| calamine::verif::xlsx_coordinate_to_name((r - 1, c))) {
                Ok(Ok(b)) if b == name.as_bytes() => {}
                Ok(other) => out.fail("c01|coordinate_to_name|value", json!({"pos": [r - 1, c], "got": format!("{:?}", other)})),
                Err(f) => out.fail(format!("c01|coordinate_to_name|fault:{}", f.class), json!({"pos": [r - 1, c]})),
            }
            out.evals += 1;
        }
        // dimension text with this column
        let d = format!("{}5:{}77", col_name(c), col_name(16_383));
        match guard(|| calamine::verif::xlsx_dimension(d.as_bytes())) {
            Ok(Ok(x)) if x == ((4, c), (76, 16_383)) => {}
            Ok(other) => out.fail("c01|dimension|value", json!({"text": d, "got": format!("{:?}", other)})),
            Err(f) => out.fail(format!("c01|dimension|fault:{}", f.class), json!({"text": d})),
        }
    }
    out.distinct_by_construction += 1024 * rows.len() as u64;
    out.feat("cell_name_sweep");
    out.sample(json!({"cell_names": format!("{}1 .. {}1048576", col_name(lo as u32), col_name(lo as u32 + 1023))}));
}

const SWEEP_UNITS: u64 = 16;

impl Prop for C01 {
    fn id(&self) -> &'static str {
        "C01"
    }
    fn rule(&self) -> String {
        "random logical workbooks (1..4 sheets, sparse cells anywhere in A1..XFD1048576 incl. column boundaries 25/26/701/702/16383, every cell type, styled cells, formulas with cached values; every value unique) each written in several random physical encodings (choice vector: explicit/implicit row and cell references with filler elements, dimension absent/exact/too small/too large, 7 string storage forms, escaping layer, element and relationship prefixes, part-name case, absolute targets, whitespace, ignorable siblings, stored/deflated, part order, BOM/XML declaration, attribute order) and read back through worksheet_range and worksheet_range_ref; plus an exhaustive sweep of the cell-name parser over all 16384 columns x 8 rows. Non-trivial = the workbook has >= 1 compared cell and the encoding >= 1 non-default choice; distinct by hash of the generated file.".into()
    }
    fn assumptions(&self) -> Vec<String> {
        vec![
            "the reference encoder implements ECMA-376 SpreadsheetML/OPC (trusted base; validated against calamine's own fixtures only indirectly)".into(),
            "a cell whose text is the empty string is expected as String(\"\") in every storage form".into(),
            "implicit references are only used where the cursor rule (previous position + 1) reproduces the intended position; small gaps are closed with empty filler elements".into(),
            "numeric cells with a date style are expected as DateTime (C10's mapping) for the 8 fixed formats of gen::basic_xfs".into(),
        ]
    }
    fn units(&self, tier: Tier) -> u64 {
        SWEEP_UNITS + tier.pick(16, 320)
    }
    fn exhaustive(&self, _t: Tier) -> Option<String> {
        Some("cell-name parser: all 16384 column names x rows {1,2,9,10,99,100,65536,1048576}, upper and lower case; coordinate_to_name inverse".into())
    }
    fn mandatory(&self, _t: Tier) -> Vec<String> {
        let mut v: Vec<String> = ["cell_name_sweep", "refs:Explicit", "refs:ImplicitCells", "refs:ImplicitAll", "refs:Mixed", "dim:Absent", "dim:Exact", "dim:TooSmall", "dim:TooLarge", "dim:Understated", "elem_prefix", "rel_prefix", "part_name_case", "abs_targets", "whitespace", "extras", "all_stored", "deflated", "shuffled_parts", "bom", "no_xml_decl", "attr_shuffle", "implicit_cell_ref", "implicit_row_ref", "rows_out_of_order", "filler_cell", "filler_row", "col>=26", "col>=702", "date1904", "empty_string_cell", "xf_index>=256"]
            .iter().map(|s| s.to_string()).collect();
        for k in ["num", "bool", "error", "iso_date", "blank", "str:SharedPlain", "str:SharedRich", "str:InlinePlain", "str:InlineRich", "str:StrV"] {
            v.push(format!("cell:{}", k));
        }
        v
    }
    fn run_unit(&self, ctx: &Ctx, unit: u64, out: &mut UnitResult) {
        if unit < SWEEP_UNITS {
            sweep_cell_names(unit, out);
            return;
        }
        let n_models = ctx.tier.pick(25, 60);
        let n_enc = ctx.tier.pick(5, 10);
        for i in 0..n_models {
            let mut rng = Rng::derive(ctx.seed, "c01", unit * 10_000 + i);
            let mut book = gen::gen_book(&mut rng, &gen::XLSX_LIMITS, &gen::GenOpts { empty_strings: true, max_sheets: 3, max_cells: ctx.tier.pick(40, 150), formulas: true, styles: true });
            // every 6th model: a style table with more than 256 cell XFs (entry j repeats basic entry (j+3)%8,
            // so xf j and xf j%256 differ in class) and half of the styled cells moved to an index >= 256
            if i % 6 == 5 {
                let base = book.xfs.clone();
                let n_pad = 300 + rng.usize(400);
                for j in 0..n_pad {
                    book.xfs.push(base[(base.len() + j + 3) % base.len()].clone());
                }
                let n = book.xfs.len();
                for sh in book.sheets.iter_mut() {
                    for c in sh.cells.values_mut() {
                        if c.xf.is_some() && rng.bool() {
                            c.xf = Some(256 + rng.usize(n - 256));
                            out.feat("xf_index>=256");
                        }
                    }
                }
            }
            let total_cells: usize = book.sheets.iter().map(|s| s.cells.len()).sum();
            if book.date1904 {
                out.feat("date1904");
            }
            if book.sheets.iter().any(|s| s.cells.values().any(|c| c.val == Val::Str(String::new()))) {
                out.feat("empty_string_cell");
            }
            if book.sheets.iter().any(|s| s.cells.keys().any(|p| p.1 >= 26)) {
                out.feat("col>=26");
            }
            if book.sheets.iter().any(|s| s.cells.keys().any(|p| p.1 >= 702)) {
                out.feat("col>=702");
            }
            for k in 0..n_enc {
                let mut ch = if k == 0 { XlsxChoices::default() } else { XlsxChoices::random(&mut rng) };
                ch.rows_shuffled = k > 0 && rng.chance(1, 5);
                let enc = xlsx::encode(&book, &ch, &mut rng);
                let feats = ch.features();
                for f in &feats {
                    out.feat(f);
                }
                for (kf, n) in &enc.counts {
                    out.feat_n(kf, *n);
                }
                for f in enc.cell_feats.values() {
                    out.feat(&format!("cell:{}", f.trim_end_matches("+f")));
                }
                let cj = json!({"unit": unit, "model": i, "encoding": k, "choices": feats});
                check_xlsx(&book, &enc, "c01", out, &cj);
                let nontrivial = total_cells > 0 && k > 0;
                out.case(if nontrivial { Some(hash_bytes(&enc.bytes)) } else { None });
                if out.samples.is_empty() && total_cells > 0 && k == 1 {
                    let sh = &book.sheets[0];
                    out.sample(json!({"sheets": book.sheets.len(), "first_sheet_cells": sh.cells.iter().take(4).map(|(p, c)| format!("{}={:?}", a1(*p), c.val)).collect::<Vec<_>>(), "choices": feats, "file_bytes": enc.bytes.len()}));
                }
            }
        }
    }
}
