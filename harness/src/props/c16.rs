//! C16 — workbook metadata is reported faithfully and in workbook order.

use crate::core::*;
use crate::enc::biff8::{BiffChoices, BiffExtra};
use crate::enc::cfb::CfbChoices;
use crate::enc::ods::OdsChoices;
use crate::enc::xlsb::{XlsbChoices, XlsbExtra};
use crate::enc::xlsx::XlsxChoices;
use crate::fml::{self, Env, Ex, GenCfg};
use crate::model::*;
use crate::monitor::guard;
use crate::prng::{hash_bytes, Rng};
use calamine::{Data, Ods, Reader, SheetType, SheetVisible, Xls, Xlsb, Xlsx};
use serde_json::json;
use std::io::Cursor;

pub struct C16;

fn gen_name(rng: &mut Rng, i: usize, xml_ok_only: bool) -> String {
    let base = match rng.below(9) {
        0 => "Sheet".to_string(),
        // Latin-1 only (8-bit storage in xls); the byte pairs are also well-formed UTF-8
        8 => "Vis\u{c3}\u{a9}le \u{c2}\u{a3}".to_string(),
        1 => "Données été".to_string(),
        2 => "A&B <c> \"q\" 'a'".to_string(),
        3 => "  two  spaces ".to_string(),
        4 => "日本語シート".to_string(),
        5 => "𝄞 astral 😀".to_string(),
        6 => "Лист".to_string(),
        _ => "x".repeat(1 + rng.usize(20)),
    };
    let _ = xml_ok_only;
    // every now and then a name of exactly 31 UTF-16 units (the format limit)
    let base = if rng.chance(1, 6) { format!("{}{}", base, "m".repeat(31)) } else { base };
    // unique, at most 31 UTF-16 units
    let tag = format!("{}", i + 1);
    let mut s: String = base;
    while s.encode_utf16().count() + tag.len() > 31 {
        s.pop();
    }
    format!("{}{}", s, tag)
}

fn st(k: SheetKind, fmt: &str) -> SheetType {
    match (k, fmt) {
        (SheetKind::Work, _) => SheetType::WorkSheet,
        (SheetKind::Chart, _) => SheetType::ChartSheet,
        (SheetKind::Dialog, "xls") => SheetType::WorkSheet,
        (SheetKind::Dialog, _) => SheetType::DialogSheet,
        (SheetKind::Macro, _) => SheetType::MacroSheet,
        (SheetKind::Vba, "xls") => SheetType::Vba,
        (SheetKind::Vba, _) => SheetType::MacroSheet,
    }
}

fn sv(v: Visible) -> SheetVisible {
    match v {
        Visible::Visible => SheetVisible::Visible,
        Visible::Hidden => SheetVisible::Hidden,
        Visible::VeryHidden => SheetVisible::VeryHidden,
    }
}

fn one(rng: &mut Rng, fmt: &str, out: &mut UnitResult, ctxj: serde_json::Value) {
    let many = rng.chance(1, 5);
    let n_sheets = 1 + rng.usize(if many { 12 } else { 4 });
    let mut book = MBook { xfs: crate::gen::basic_xfs(), date1904: rng.bool(), ..Default::default() };
    for i in 0..n_sheets {
        let mut sh = MSheet::new(&gen_name(rng, i, true));
        sh.kind = match fmt {
            "ods" => SheetKind::Work,
            "xls" => *rng.pick(&[SheetKind::Work, SheetKind::Work, SheetKind::Chart, SheetKind::Macro, SheetKind::Vba]),
            _ => *rng.pick(&[SheetKind::Work, SheetKind::Work, SheetKind::Chart, SheetKind::Dialog, SheetKind::Macro]),
        };
        if i == 0 && rng.chance(2, 3) {
            sh.kind = SheetKind::Work;
        }
        sh.visible = match fmt {
            "ods" => *rng.pick(&[Visible::Visible, Visible::Hidden]),
            _ => *rng.pick(&[Visible::Visible, Visible::Visible, Visible::Hidden, Visible::VeryHidden]),
        };
        out.feat(&format!("kind:{:?}", sh.kind));
        out.feat(&format!("visible:{:?}", sh.visible));
        if sh.kind == SheetKind::Work {
            // a date cell on every worksheet: the date system must reach it
            sh.cells.insert((1 + i as u32, 2), MCell { val: Val::Num(40_000.5 + i as f64), xf: Some(2), formula: None });
            // whole-number dates and elapsed times (xls stores them as integer RK values at random)
            sh.cells.insert((1 + i as u32, 3), MCell { val: Val::Num(3.0 + i as f64), xf: Some(if i % 2 == 0 { 4 } else { 6 }), formula: None });
            sh.cells.insert((1 + i as u32, 4), MCell { val: Val::Num(40_000.0 + i as f64), xf: Some(if i % 2 == 0 { 2 } else { 3 }), formula: None });
            sh.cells.insert((0, 0), MCell::v(Val::Str(format!("s{}", i))));
        }
        book.sheets.push(sh);
    }
    if book.date1904 {
        out.feat("date1904");
    }
    if n_sheets > 8 {
        out.feat("sheets>8");
    }
    // defined names
    let n_names = rng.usize(5);
    let mut want_names: Vec<(String, String)> = vec![];
    let mut tok_names: Vec<(String, Ex)> = vec![];
    let sheet_plain: Vec<String> = book.sheets.iter().map(|s| s.name.clone()).collect();
    for k in 0..n_names {
        let name = format!("{}{}", ["Total", "Taxe_é", "_x", "Q1", "名前"][k % 5], k);
        match fmt {
            "xlsx" => {
                let v = *rng.pick(&["Sheet1!$A$1:$B$2", "'My Sheet'!$C$3", "OFFSET(A1,1,1)&\"<x>\"", "1+2", "  spaced  "]);
                book.defined_names.push((name.clone(), v.to_string()));
                want_names.push((name, v.to_string()));
            }
            "ods" => {
                let v = if rng.bool() { "$Sheet1.$A$1:.$B$2".to_string() } else { "of:=SUM([$Sheet1.$A$1:.$A$9])&\"<x>\"".to_string() };
                book.defined_names.push((name.clone(), v.clone()));
                want_names.push((name, v));
            }
            _ => {
                let g = GenCfg { max_row: if fmt == "xls" { 65_535 } else { 1_048_575 }, max_col: if fmt == "xls" { 255 } else { 16_383 }, n_xti: n_sheets, n_names: 0 };
                let x = rng.usize(n_sheets);
                let mk = |rng: &mut Rng| {
                    let mut r = fml::gen_cref(rng, &g);
                    r.row_rel = rng.chance(1, 5);
                    r.col_rel = rng.chance(1, 5);
                    r
                };
                let e = if fmt == "xlsb" && !tok_names.is_empty() && rng.chance(1, 3) {
                    // a name defined in terms of an earlier name (PtgName, 1-based index); xlsb only:
                    // the xls reader decodes references, not general name formulas
                    out.feat(&format!("{}:name_refers_to_earlier_name", fmt));
                    Ex::Bin(2, Box::new(Ex::Name(1 + rng.usize(tok_names.len()))), Box::new(Ex::Int(2)))
                } else if rng.bool() {
                    Ex::Ref3d(x, mk(rng))
                } else {
                    let (a, b) = (mk(rng), mk(rng));
                    Ex::Area3d(x, fml::CRef { row: a.row.min(b.row), col: a.col.min(b.col), ..a.clone() }, fml::CRef { row: a.row.max(b.row), col: a.col.max(b.col), ..b })
                };
                let earlier: Vec<String> = tok_names.iter().map(|t: &(String, Ex)| t.0.clone()).collect();
                want_names.push((name.clone(), e.a1(&Env { xti_sheets: &sheet_plain, names: &earlier })));
                tok_names.push((name, e));
            }
        }
    }
    if fmt == "xlsx" && book.sheets.len() >= 2 && rng.chance(1, 3) {
        // the same name in several scopes (print areas, filter ranges): one entry per definition
        for k in 0..2 + rng.usize(2) {
            let v = format!("Sheet{}!$A$1:$C${}", k + 1, 5 + k);
            book.defined_names.push(("_xlnm.Print_Area".to_string(), v.clone()));
            want_names.push(("_xlnm.Print_Area".to_string(), v));
        }
        out.feat("xlsx:name_in_several_scopes");
    }
    out.feat(&format!("defined_names:{}", n_names.min(2)));
    let want_meta: Vec<(String, SheetType, SheetVisible)> = book.sheets.iter().map(|s| (s.name.clone(), st(s.kind, fmt), sv(s.visible))).collect();
    let fail = |out: &mut UnitResult, class: String, d: serde_json::Value, bytes: &[u8]| out.fail(class, json!({"ctx": ctxj, "detail": d, "input_hex": hex(bytes)}));
    macro_rules! verify {
        ($wb:expr, $bytes:expr, $dates:expr) => {{
            let mut wb = $wb;
            let names = wb.sheet_names();
            let want: Vec<String> = want_meta.iter().map(|m| m.0.clone()).collect();
            if names != want {
                let sym = if names.len() != want.len() { "count" } else if { let mut a = names.clone(); a.sort(); let mut b = want.clone(); b.sort(); a == b } { "order" } else { "name" };
                fail(out, format!("c16|{}|sheet_names|{}", fmt, sym), json!({"got": names, "want": want}), &$bytes);
                return;
            }
            let meta: Vec<(String, SheetType, SheetVisible)> = wb.sheets_metadata().iter().map(|s| (s.name.clone(), s.typ, s.visible)).collect();
            for (g, w) in meta.iter().zip(want_meta.iter()) {
                if g.1 != w.1 {
                    fail(out, format!("c16|{}|sheet_type|{:?}", fmt, w.1), json!({"sheet": w.0, "got": format!("{:?}", g.1)}), &$bytes);
                    return;
                }
                if g.2 != w.2 {
                    fail(out, format!("c16|{}|sheet_visible|{:?}", fmt, w.2), json!({"sheet": w.0, "got": format!("{:?}", g.2)}), &$bytes);
                    return;
                }
            }
            if meta.len() != want_meta.len() {
                fail(out, format!("c16|{}|metadata_count", fmt), json!({"got": meta.len()}), &$bytes);
                return;
            }
            // the same metadata through format auto-detection
            match guard(|| calamine::open_workbook_auto_from_rs(Cursor::new($bytes.clone())).map(|a| (a.sheet_names(), a.defined_names().to_vec()))) {
                Ok(Ok((n, d))) => {
                    if n != want {
                        fail(out, format!("c16|{}|auto_detected|sheet_names", fmt), json!({"got": n, "want": want}), &$bytes);
                        return;
                    }
                    if d != wb.defined_names().to_vec() {
                        fail(out, format!("c16|{}|auto_detected|defined_names", fmt), json!({"got": d}), &$bytes);
                        return;
                    }
                    out.feat("auto_detected");
                }
                Ok(Err(e)) => {
                    fail(out, format!("c16|{}|auto_detected|open_error", fmt), json!(format!("{:?}", e)), &$bytes);
                    return;
                }
                Err(f) => {
                    fail(out, format!("c16|{}|auto_detected|fault:{}", fmt, f.class), json!(f.detail), &$bytes);
                    return;
                }
            }
            let dn = wb.defined_names().to_vec();
            if dn != want_names {
                let sym = if dn.len() != want_names.len() { "count" } else if dn.iter().zip(want_names.iter()).all(|(a, b)| a.0 == b.0) { "value" } else { "name_or_order" };
                fail(out, format!("c16|{}|defined_names|{}", fmt, sym), json!({"got": dn, "want": want_names}), &$bytes);
                return;
            }
            if $dates {
                for (i, sh) in book.sheets.iter().enumerate() {
                    if sh.kind != SheetKind::Work {
                        continue;
                    }
                    match guard(|| wb.worksheet_range(&sh.name)) {
                        Ok(Ok(r)) => {
                            let want = dt(40_000.5 + i as f64, FmtClass::Date, book.date1904);
                            if r.get_value((1 + i as u32, 2)) != Some(&want) {
                                fail(out, format!("c16|{}|date_system|{}", fmt, if book.date1904 { "1904" } else { "1900" }), json!({"sheet": sh.name, "got": format!("{:?}", r.get_value((1 + i as u32, 2)))}), &$bytes);
                                return;
                            }
                            for (col, want) in [(3u32, dt(3.0 + i as f64, FmtClass::Duration, book.date1904)), (4, dt(40_000.0 + i as f64, FmtClass::Date, book.date1904))] {
                                if r.get_value((1 + i as u32, col)) != Some(&want) {
                                    fail(out, format!("c16|{}|date_system|{}|whole_number:{}", fmt, if book.date1904 { "1904" } else { "1900" }, if col == 3 { "duration" } else { "date" }), json!({"sheet": sh.name, "got": format!("{:?}", r.get_value((1 + i as u32, col))), "want": format!("{:?}", want)}), &$bytes);
                                    return;
                                }
                            }
                            if r.get_value((0, 0)) != Some(&Data::String(format!("s{}", i))) {
                                fail(out, format!("c16|{}|sheet_content_mixup", fmt), json!({"sheet": sh.name}), &$bytes);
                                return;
                            }
                        }
                        Ok(Err(e)) => {
                            fail(out, format!("c16|{}|read_error|{}", fmt, super::c01::err_variant(&e)), json!(format!("{:?}", e)), &$bytes);
                            return;
                        }
                        Err(f) => {
                            fail(out, format!("c16|{}|read|fault:{}", fmt, f.class), json!(f.detail), &$bytes);
                            return;
                        }
                    }
                }
            }
            out.sum("sheets_compared", want_meta.len() as u64);
            out.case(Some(hash_bytes(&$bytes)));
        }};
    }
    macro_rules! open {
        ($t:ty, $bytes:expr) => {
            match guard(|| <$t>::new(Cursor::new($bytes.clone()))) {
                Ok(Ok(w)) => w,
                Ok(Err(e)) => {
                    fail(out, format!("c16|{}|open_error|{}", fmt, super::c01::err_variant(&e)), json!(format!("{:?}", e)), &$bytes);
                    return;
                }
                Err(f) => {
                    fail(out, format!("c16|{}|open|fault:{}", fmt, f.class), json!(f.detail), &$bytes);
                    return;
                }
            }
        };
    }
    match fmt {
        "xlsx" => {
            let bytes = crate::enc::xlsx::encode(&book, &XlsxChoices::random(rng), rng).bytes;
            verify!(open!(Xlsx<_>, bytes), bytes, true);
        }
        "xlsb" => {
            let mut rg = vec![];
            for (n, e) in &tok_names {
                let mut v = vec![];
                e.rgce(true, &mut v);
                rg.push((n.clone(), v));
            }
            let extra = XlsbExtra { rgce: Default::default(), names: rg, xtis: (0..n_sheets as i32).map(|i| (i, i)).collect() };
            let bytes = crate::enc::xlsb::encode(&book, &XlsbChoices::random(rng), &extra, rng).bytes;
            verify!(open!(Xlsb<_>, bytes), bytes, true);
        }
        "xls" => {
            let mut rg = vec![];
            for (n, e) in &tok_names {
                let mut v = vec![];
                e.rgce(false, &mut v);
                rg.push((n.clone(), v));
            }
            let extra = BiffExtra { rgce: Default::default(), names: rg, xtis: (0..n_sheets as i16).map(|i| (0, i, i)).collect() };
            let (bytes, _) = crate::enc::xls_file(&book, &BiffChoices::random(rng), &extra, &CfbChoices::random(rng), &[], rng);
            verify!(open!(Xls<_>, bytes), bytes, true);
        }
        _ => {
            let oc = OdsChoices::random(rng);
            for f in oc.features() {
                if f == "ods:dde_links" {
                    out.feat(&f);
                }
            }
            let bytes = crate::enc::ods::encode(&book, &oc, rng).bytes;
            verify!(open!(Ods<_>, bytes), bytes, false);
        }
    }
}

impl Prop for C16 {
    fn id(&self) -> &'static str {
        "C16"
    }
    fn rule(&self) -> String {
        "workbooks with 1..12 sheets (unique names <= 31 UTF-16 units from ASCII, XML specials, leading/trailing/repeated spaces, accented, CJK, Cyrillic and astral characters), every visibility x kind combination the format expresses (xlsx/xlsb: work/chart/dialog/macro; xls: dt 0/1/2/6; ods: visible/hidden), 0..4 defined names (free text for xlsx/ods, 3-D reference/area tokens with absolute and relative components for xls/xlsb), both date systems with a date cell on every worksheet, written in random physical encodings of all four formats; sheet_names, sheets_metadata, defined_names and the date cells are compared with the model. Distinct by hash of the file.".into()
    }
    fn assumptions(&self) -> Vec<String> {
        vec![
            "trusted base: the four reference encoders".into(),
            "xls dialog sheets are ordinary worksheets at the BoundSheet level; ods has no date-system flag that reaches cells (date cells are ISO strings)".into(),
        ]
    }
    fn units(&self, tier: Tier) -> u64 {
        tier.pick(16, 160)
    }
    fn mandatory(&self, _t: Tier) -> Vec<String> {
        ["fmt:xlsx", "fmt:xlsb", "fmt:xls", "fmt:ods", "kind:Work", "kind:Chart", "kind:Dialog", "kind:Macro", "kind:Vba", "visible:Visible", "visible:Hidden", "visible:VeryHidden", "date1904", "sheets>8", "defined_names:0", "defined_names:1", "defined_names:2", "auto_detected", "ods:dde_links", "xlsx:name_in_several_scopes", "xlsb:name_refers_to_earlier_name"]
            .iter().map(|s| s.to_string()).collect()
    }
    fn run_unit(&self, ctx: &Ctx, unit: u64, out: &mut UnitResult) {
        let mut rng = Rng::derive(ctx.seed, "c16", unit);
        for i in 0..ctx.tier.pick(100, 500) {
            let fmt = ["xlsx", "xlsb", "xls", "ods"][(i % 4) as usize];
            out.feat(&format!("fmt:{}", fmt));
            let cj = json!({"unit": unit, "case": i, "format": fmt});
            if out.samples.is_empty() {
                out.sample(cj.clone());
            }
            one(&mut rng, fmt, out, cj);
        }
    }
}
