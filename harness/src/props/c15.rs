//! C15 — XLSX shared formulas expand to the translated formula of each member cell.
//! The master formula is generated as a token list (so the oracle translates on tokens, never on
//! text); members are read back through worksheet_formula, and the translation routine is also
//! swept directly through the `xlsx_translate_shared` hook. A failing member is attributed to the
//! token kinds that the real routine mistranslates in isolation (culprit isolation).

use crate::core::*;
use crate::enc::xlsx::{self, XlsxChoices};
use crate::model::*;
use crate::monitor::guard;
use crate::prng::{hash_str, Rng};
use calamine::{Reader, Xlsx};
use serde_json::json;
use std::collections::BTreeMap;
use std::io::Cursor;

pub struct C15;

#[derive(Clone, Debug)]
struct CRef {
    row: u32,
    col: u32,
    row_abs: bool,
    col_abs: bool,
}

impl CRef {
    fn text(&self) -> String {
        format!(
            "{}{}{}{}",
            if self.col_abs { "$" } else { "" },
            col_name(self.col),
            if self.row_abs { "$" } else { "" },
            self.row + 1
        )
    }
    fn moved(&self, off: (i64, i64)) -> CRef {
        CRef {
            row: if self.row_abs { self.row } else { (self.row as i64 + off.0) as u32 },
            col: if self.col_abs { self.col } else { (self.col as i64 + off.1) as u32 },
            row_abs: self.row_abs,
            col_abs: self.col_abs,
        }
    }
    fn kind(&self) -> &'static str {
        match (self.col_abs, self.row_abs) {
            (false, false) => "ref_rel",
            (true, true) => "ref_abs",
            (true, false) => "ref_mixed_col_abs",
            (false, true) => "ref_mixed_row_abs",
        }
    }
}

#[derive(Clone, Debug)]
enum Tok {
    Ref(CRef),
    /// verbatim text of a closed vocabulary kind
    Lit(&'static str, String),
}

impl Tok {
    fn text(&self) -> String {
        match self {
            Tok::Ref(r) => r.text(),
            Tok::Lit(_, s) => s.clone(),
        }
    }
    fn moved(&self, off: (i64, i64)) -> Tok {
        match self {
            Tok::Ref(r) => Tok::Ref(r.moved(off)),
            t => t.clone(),
        }
    }
    fn kind(&self) -> &'static str {
        match self {
            Tok::Ref(r) => r.kind(),
            Tok::Lit(k, _) => k,
        }
    }
}

fn render(toks: &[Tok]) -> String {
    toks.iter().map(|t| t.text()).collect()
}

fn gen_ref(rng: &mut Rng, margin: u32) -> CRef {
    // keep every translation by up to +-margin inside the sheet
    let col = match rng.below(6) {
        0 => margin + rng.range_u32(0, 3),
        1 => *rng.pick(&[25u32, 26, 27, 701, 702, 703]),
        2 => 16_383 - margin - rng.range_u32(0, 3),
        _ => margin + rng.range_u32(0, 40),
    };
    let row = match rng.below(6) {
        0 => margin + rng.range_u32(0, 3),
        1 => *rng.pick(&[8u32, 9, 10, 98, 99, 100, 999, 1000]) + margin,
        2 => 1_048_575 - margin - rng.range_u32(0, 3),
        _ => margin + rng.range_u32(0, 60),
    };
    CRef {
        row,
        col,
        row_abs: rng.chance(1, 3),
        col_abs: rng.chance(1, 3),
    }
}

fn gen_operand(rng: &mut Rng, margin: u32, depth: u32, out: &mut Vec<Tok>) {
    let lit = |k: &'static str, s: &str| Tok::Lit(k, s.to_string());
    match rng.below(if depth > 2 { 9 } else { 12 }) {
        0..=2 => out.push(Tok::Ref(gen_ref(rng, margin))),
        3 => {
            out.push(Tok::Ref(gen_ref(rng, margin)));
            out.push(lit("op", ":"));
            out.push(Tok::Ref(gen_ref(rng, margin)));
        }
        4 => {
            let s = *rng.pick(&[
                ("sheet_plain", "Sheet2!"),
                ("sheet_plain", "Data_1!"),
                ("sheet_quoted", "'My Sheet'!"),
                ("sheet_quoted", "'it''s'!"),
                ("sheet_quoted_celllike", "'Q1'!"),
                ("sheet_quoted_celllike", "'Q1 data'!"),
                ("sheet_quoted_celllike", "'AB12'!"),
            ]);
            out.push(lit(s.0, s.1));
            out.push(Tok::Ref(gen_ref(rng, margin)));
        }
        5 => {
            let s = *rng.pick(&[("num", "12"), ("num", "3.5"), ("num", "0.25"), ("num_exp", "1E5"), ("num_exp", "2.5E-3"), ("num_exp", "1E+20")]);
            out.push(lit(s.0, s.1));
        }
        6 => {
            let s = *rng.pick(&[
                ("str", "\"text\""),
                ("str", "\"\""),
                ("str_celllike", "\"A1\""),
                ("str_celllike", "\"see B2 and $C$3\""),
                ("str_celllike", "\"say \"\"A1\"\" twice\""),
                ("str_apostrophe", "\"it's A1\""),
                ("str_non_ascii", "\"é A1 日本\""),
            ]);
            out.push(lit(s.0, s.1));
        }
        7 => {
            let s = *rng.pick(&[("name", "Total"), ("name", "tax.rate"), ("name_celllike", "Q1_total"), ("name_celllike", "_A1"), ("name_non_ascii", "ÉA1"), ("name_non_ascii", "総計"), ("bool", "TRUE"), ("bool", "FALSE")]);
            out.push(lit(s.0, s.1));
        }
        8 => {
            out.push(lit("op", "-"));
            out.push(Tok::Ref(gen_ref(rng, margin)));
        }
        9 | 10 => {
            let f = *rng.pick(&[("func", "SUM("), ("func", "IF("), ("func", "MAX("), ("func_digits", "LOG10("), ("func_digits", "ATAN2("), ("func_digits", "DEC2BIN("), ("func_digits", "SUMX2MY2(")]);
            out.push(lit(f.0, f.1));
            let n = 1 + rng.usize(3);
            for i in 0..n {
                if i > 0 {
                    out.push(lit("op", ","));
                }
                gen_expr(rng, margin, depth + 1, out);
            }
            out.push(lit("op", ")"));
        }
        _ => {
            out.push(lit("op", "("));
            gen_expr(rng, margin, depth + 1, out);
            out.push(lit("op", ")"));
        }
    }
}

fn gen_expr(rng: &mut Rng, margin: u32, depth: u32, out: &mut Vec<Tok>) {
    gen_operand(rng, margin, depth, out);
    let n = if depth > 2 { 0 } else { rng.usize(3) };
    for _ in 0..n {
        let op = *rng.pick(&["+", "-", "*", "/", "^", "&", "<", "<=", "=", ">", ">=", "<>"]);
        out.push(Tok::Lit("op", op.to_string()));
        gen_operand(rng, margin, depth, out);
    }
}

const KNOWN_BAD_KINDS: [&str; 0] = [];

/// kinds of the tokens that the real routine mistranslates when given alone
fn culprits(toks: &[Tok], off: (i64, i64)) -> Vec<String> {
    let mut v = std::collections::BTreeSet::new();
    for t in toks.iter() {
        let (txt, want) = (t.text(), t.moved(off).text());
        if let Ok(Ok(got)) = guard(|| calamine::verif::xlsx_translate_shared(&txt, off)) {
            if got != want {
                v.insert(t.kind().to_string());
            }
        }
    }
    v.into_iter().collect()
}

fn dir_name(off: (i64, i64)) -> &'static str {
    match (off.0 != 0, off.1 != 0) {
        (false, false) => "none",
        (true, false) => "rows",
        (false, true) => "cols",
        (true, true) => "both",
    }
}

fn direct_sweep(rng: &mut Rng, out: &mut UnitResult, n: u64) {
    for _ in 0..n {
        let margin = 8;
        let mut toks = vec![];
        gen_expr(rng, margin, 0, &mut toks);
        let off = match rng.below(4) {
            0 => (rng.range(-(margin as i64), margin as i64), 0),
            1 => (0, rng.range(-(margin as i64), margin as i64)),
            2 => (0, 0),
            _ => (rng.range(-(margin as i64), margin as i64), rng.range(-(margin as i64), margin as i64)),
        };
        let text = render(&toks);
        let want: String = toks.iter().map(|t| t.moved(off).text()).collect();
        for t in &toks {
            out.feat(&format!("tok:{}", t.kind()));
        }
        out.feat(&format!("offset:{}", dir_name(off)));
        match guard(|| calamine::verif::xlsx_translate_shared(&text, off)) {
            Ok(Ok(got)) => {
                if got != want {
                    let c = culprits(&toks, off);
                    out.fail(
                        format!("c15|translate|{}|{}", if c.is_empty() { "context".to_string() } else { c.join("+") }, dir_name(off)),
                        json!({"master": text, "offset": [off.0, off.1], "got": got, "want": want}),
                    );
                }
            }
            Ok(Err(e)) => out.fail("c15|translate|error", json!({"master": text, "offset": [off.0, off.1], "err": e})),
            Err(f) => out.fail(format!("c15|translate|fault:{}", f.class), json!({"master": text, "offset": [off.0, off.1]})),
        }
        out.case(Some(hash_str(&format!("{}{:?}", text, off))));
        out.sum("direct_translations", 1);
    }
}

fn file_case(rng: &mut Rng, out: &mut UnitResult, ctxj: serde_json::Value) {
    let mut book = MBook::default();
    book.xfs = crate::gen::basic_xfs();
    let mut sh = MSheet::new("Sheet1");
    let mut expected: BTreeMap<Pos, String> = BTreeMap::new();
    let mut masters: BTreeMap<Pos, (Vec<Tok>, Pos)> = BTreeMap::new(); // member -> (tokens, master)
    let n_groups = 1 + rng.usize(3);
    // non-monotone si values
    let mut sis: Vec<u32> = (0..n_groups as u32).collect();
    rng.shuffle(&mut sis);
    let mut next_row = 12u32;
    for g in 0..n_groups {
        let shape = rng.below(3);
        let (h, w) = match shape {
            0 => (2 + rng.range_u32(0, 5), 1),
            1 => (1, 2 + rng.range_u32(0, 5)),
            _ => (2 + rng.range_u32(0, 4), 2 + rng.range_u32(0, 4)),
        };
        out.feat(["group:column", "group:row", "group:block"][shape as usize]);
        let r0 = next_row;
        let c0 = 10 + rng.range_u32(0, 8);
        next_row += h + 1 + rng.range_u32(0, 2);
        let rect = ((r0, c0), (r0 + h - 1, c0 + w - 1));
        // master: top-left, or (sometimes) a later cell; then only cells after it are members
        let master = if rng.chance(1, 5) {
            out.feat("master_not_top_left");
            (r0 + rng.range_u32(0, h - 1), c0 + rng.range_u32(0, w - 1))
        } else {
            (r0, c0)
        };
        let mut toks = vec![];
        gen_expr(rng, 9, 0, &mut toks);
        let text = render(&toks);
        sh.shared.push(MShared { si: sis[g], rect, master, text: text.clone() });
        for r in rect.0 .0..=rect.1 .0 {
            for c in rect.0 .1..=rect.1 .1 {
                let p = (r, c);
                if p < master {
                    continue; // before the master in document order: not part of the group
                }
                let mut cell = MCell::v(Val::Num((r * 100 + c) as f64));
                if p == master {
                    cell.formula = Some(text.clone());
                    expected.insert(p, text.clone());
                } else {
                    let off = (r as i64 - master.0 as i64, c as i64 - master.1 as i64);
                    let want: String = toks.iter().map(|t| t.moved(off).text()).collect();
                    cell.formula = Some(want.clone());
                    expected.insert(p, want);
                    masters.insert(p, (toks.clone(), master));
                }
                sh.cells.insert(p, cell);
            }
        }
        for t in &toks {
            out.feat(&format!("tok:{}", t.kind()));
        }
    }
    // cells outside any group: a plain formula and plain values
    let mut plain = MCell::v(Val::Num(7.0));
    plain.formula = Some("A1+B$2*LOG10($C3)".into());
    sh.cells.insert((next_row + 1, 3), plain);
    expected.insert((next_row + 1, 3), "A1+B$2*LOG10($C3)".into());
    sh.cells.insert((0, 0), MCell::v(Val::Num(1.0)));
    sh.cells.insert((next_row + 2, 30), MCell::v(Val::Str("outside".into())));
    book.sheets.push(sh);
    let mut ch = XlsxChoices::random(rng);
    if rng.bool() {
        ch = XlsxChoices::default();
    }
    let enc = xlsx::encode(&book, &ch, rng);
    let fail = |out: &mut UnitResult, class: String, d: serde_json::Value| out.fail(class, json!({"ctx": ctxj, "detail": d, "input_hex": hex(&enc.bytes)}));
    let r = guard(|| Xlsx::new(Cursor::new(enc.bytes.clone())).and_then(|mut wb| wb.worksheet_formula("Sheet1")));
    let range = match r {
        Ok(Ok(r)) => r,
        Ok(Err(e)) => {
            fail(out, format!("c15|read_error|{}", super::c01::err_variant(&e)), json!(format!("{:?}", e)));
            return;
        }
        Err(f) => {
            fail(out, format!("c15|read|fault:{}", f.class), json!(f.detail));
            return;
        }
    };
    out.sum("member_formulas_compared", masters.len() as u64);
    // bounds = bounding box of the formula cells
    let r0 = expected.keys().map(|p| p.0).min().unwrap();
    let r1 = expected.keys().map(|p| p.0).max().unwrap();
    let c0 = expected.keys().map(|p| p.1).min().unwrap();
    let c1 = expected.keys().map(|p| p.1).max().unwrap();
    // compare cell by cell first (more specific than bounds)
    for (p, want) in &expected {
        let got = range.get_value(*p).cloned().unwrap_or_default();
        if got != *want {
            let class = match masters.get(p) {
                Some((toks, m)) => {
                    let off = (p.0 as i64 - m.0 as i64, p.1 as i64 - m.1 as i64);
                    if got.is_empty() {
                        format!("c15|member_missing|{}", dir_name(off))
                    } else {
                        let c = culprits(toks, off);
                        format!("c15|member_formula|{}|{}", if c.is_empty() { "context".to_string() } else { c.join("+") }, dir_name(off))
                    }
                }
                None => "c15|non_member_formula".to_string(),
            };
            fail(out, class, json!({"cell": a1(*p), "got": got, "want": want}));
            return;
        }
    }
    if range.start() != Some((r0, c0)) || range.end() != Some((r1, c1)) {
        fail(out, "c15|bounds".into(), json!({"got": [format!("{:?}", range.start()), format!("{:?}", range.end())], "want": [[r0, c0], [r1, c1]]}));
        return;
    }
    for (r, c, v) in range.used_cells() {
        let p = (r0 + r as u32, c0 + c as u32);
        if !expected.contains_key(&p) {
            fail(out, "c15|extra_formula".into(), json!({"cell": a1(p), "got": v}));
            return;
        }
    }
}

impl Prop for C15 {
    fn id(&self) -> &'static str {
        "C15"
    }
    fn rule(&self) -> String {
        "master formulas generated as token lists over the reference grammar (relative/absolute/mixed refs, areas, plain/quoted/cell-like sheet prefixes, function names with digits, strings with cell-like text, numbers with exponents, plain and cell-like defined names, operators, nesting) x group shape (column/row/block up to 6x6, non-monotone si, master top-left or later) written into xlsx files and read through worksheet_formula; plus direct (text, offset) sweeps through the translate hook. The oracle translates on tokens. Non-trivial = every case (each has >= 1 translated member or one direct translation); distinct by hash of (master text, offsets).".into()
    }
    fn assumptions(&self) -> Vec<String> {
        vec![
            "references are generated so that every member translation stays inside the sheet (no wrap-around)".into(),
            "whole-row / whole-column references and R1C1 notation are not generated".into(),
            "when the master is not the top-left cell of its range, only the cells after it in document order are members".into(),
        ]
    }
    fn units(&self, tier: Tier) -> u64 {
        tier.pick(16, 160)
    }
    fn mandatory(&self, _t: Tier) -> Vec<String> {
        let mut v: Vec<String> = ["group:column", "group:row", "group:block", "master_not_top_left", "offset:rows", "offset:cols", "offset:both"].iter().map(|s| s.to_string()).collect();
        for k in ["ref_rel", "ref_abs", "ref_mixed_col_abs", "ref_mixed_row_abs", "sheet_plain", "sheet_quoted", "sheet_quoted_celllike", "num", "num_exp", "str", "str_celllike", "str_apostrophe", "str_non_ascii", "name", "name_non_ascii", "name_celllike", "func", "func_digits", "op"] {
            v.push(format!("tok:{}", k));
        }
        v
    }
    fn run_unit(&self, ctx: &Ctx, unit: u64, out: &mut UnitResult) {
        let _ = KNOWN_BAD_KINDS;
        let mut rng = Rng::derive(ctx.seed, "c15", unit);
        let n_files = ctx.tier.pick(125, 1250);
        for i in 0..n_files {
            file_case(&mut rng, out, json!({"unit": unit, "file": i}));
            out.case(Some(rng.next_u64()));
        }
        direct_sweep(&mut rng, out, ctx.tier.pick(6000, 60_000));
        let mut t = vec![];
        gen_expr(&mut Rng::derive(ctx.seed, "c15s", unit), 9, 0, &mut t);
        out.sample(json!({"example_master": render(&t)}));
    }
}
