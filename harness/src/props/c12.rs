//! C12 — XLS strings decode identically however the SST is split into CONTINUE records and
//! however each segment is packed (8-bit compressed / 16-bit).

use crate::core::*;
use crate::enc::biff8::{self, BiffChoices, BiffExtra, SplitPlan, SstStr};
use crate::enc::cfb::{self, CfbChoices};
use crate::monitor::guard;
use crate::prng::{hash_bytes, Rng};
use calamine::{Data, Reader, Xls};
use serde_json::json;
use std::io::Cursor;

pub struct C12;

fn gen_text(rng: &mut Rng, serial: u64, len: usize, class: u8) -> String {
    let mut s = format!("#{}:", serial);
    let pool: &[char] = match class {
        0 => &['a', 'Z', '0', ' ', 'é', 'ÿ', '\u{85}', '\u{A0}', '~'],
        1 => &['a', 'é', 'Ω', '日', '本', '\u{2028}', 'ж', ' ', '€'],
        _ => &['a', '😀', '𝄞', '日', 'é', '𐍈', ' '],
    };
    for _ in 0..len {
        s.push(*rng.pick(pool));
    }
    s
}

/// builds an xls whose only sheet has one LABELSST cell per referenced string
fn build_xls(strings: &[SstStr], plan: &SplitPlan, force_wide_other: bool, rng: &mut Rng) -> (Vec<u8>, Vec<String>, Vec<(u32, String)>) {
    // hand-assembled so that the SST is exactly `strings` (incl. unreferenced / empty items)
    let sst = biff8::encode_sst(strings, plan, strings.len() as u32, rng);
    let mut g: Vec<u8> = vec![];
    let bof = |dt: u16| {
        let mut d = vec![];
        d.extend_from_slice(&0x0600u16.to_le_bytes());
        d.extend_from_slice(&dt.to_le_bytes());
        d.extend_from_slice(&[0xBB, 0x0D, 0xCC, 0x07, 0xC1, 0, 0, 0, 0x06, 0x03, 0, 0]);
        d
    };
    biff8::rec(&mut g, 0x0809, &bof(5));
    biff8::rec(&mut g, 0x0042, &1200u16.to_le_bytes());
    for _ in 0..16 {
        let mut d = vec![0u8; 20];
        d[4] = 1;
        biff8::rec(&mut g, 0x00E0, &d);
    }
    let sheet_name = if force_wide_other { "Données 日本" } else { "Sheet é\u{91}\u{80}" };
    let mut bs = vec![0u8; 6];
    bs.extend_from_slice(&biff8::short_xl_unicode(sheet_name, force_wide_other));
    let bs_at = g.len();
    biff8::rec(&mut g, 0x0085, &bs);
    for (t, d) in &sst.records {
        biff8::rec(&mut g, *t, d);
    }
    biff8::rec(&mut g, 0x000A, &[]);
    let off = g.len() as u32;
    g[bs_at + 4..bs_at + 8].copy_from_slice(&off.to_le_bytes());
    let mut sh = vec![];
    biff8::rec(&mut sh, 0x0809, &bof(0x10));
    let mut expected = vec![];
    for (i, s) in strings.iter().enumerate() {
        if s.text.is_empty() {
            continue; // a LABELSST to the empty string is dropped by design
        }
        let mut d = vec![];
        d.extend_from_slice(&(i as u16).to_le_bytes());
        d.extend_from_slice(&[0, 0, 15, 0]);
        d.extend_from_slice(&(i as u32).to_le_bytes());
        biff8::rec(&mut sh, 0x00FD, &d);
        expected.push((i as u32, s.text.clone()));
    }
    // a LABEL and a FORMULA+STRING after the SST cells (8-bit or 16-bit storage)
    let n = strings.len() as u16;
    let label = "Label ÿé\u{85}\u{9F}\u{A0}";
    let mut d = vec![];
    d.extend_from_slice(&n.to_le_bytes());
    d.extend_from_slice(&[1, 0, 15, 0]);
    d.extend_from_slice(&biff8::xl_unicode(label, force_wide_other));
    biff8::rec(&mut sh, 0x0204, &d);
    let fstr = "Formula résultat \u{80}\u{99}";
    let mut d = vec![];
    d.extend_from_slice(&n.to_le_bytes());
    d.extend_from_slice(&[2, 0, 15, 0]);
    d.extend_from_slice(&[0, 0, 0, 0, 0, 0, 0xFF, 0xFF, 0, 0, 0, 0, 0, 0, 3, 0, 0x1E, 1, 0]);
    biff8::rec(&mut sh, 0x0006, &d);
    biff8::rec(&mut sh, 0x0207, &biff8::xl_unicode(fstr, force_wide_other));
    biff8::rec(&mut sh, 0x000A, &[]);
    g.extend_from_slice(&sh);
    let built = cfb::build(&[cfb::Entry::stream("Workbook", g)], &CfbChoices::default(), rng);
    (built.bytes, sst.cut_feats, {
        let mut e = expected;
        e.push((u32::MAX, sheet_name.to_string()));
        e.push((u32::MAX - 1, label.to_string()));
        e.push((u32::MAX - 2, fstr.to_string()));
        e
    })
}

fn check(strings: &[SstStr], plan: &SplitPlan, wide_other: bool, single_cut_kind: Option<&str>, rng: &mut Rng, out: &mut UnitResult, ctx: serde_json::Value) {
    let (bytes, cut_feats, expected) = build_xls(strings, plan, wide_other, rng);
    for f in &cut_feats {
        out.feat(f);
    }
    out.feat(if wide_other { "other_strings:16bit" } else { "other_strings:8bit" });
    let cutclass = match single_cut_kind {
        Some(_) if cut_feats.len() == 1 => cut_feats[0].clone(),
        _ if cut_feats.is_empty() => "no_cut".to_string(),
        _ => {
            if cut_feats.iter().any(|f| f.contains("surrogate_split")) {
                "multi_cut+surrogate_split".to_string()
            } else {
                "multi_cut".to_string()
            }
        }
    };
    let fail = |out: &mut UnitResult, class: String, d: serde_json::Value| {
        let mut j = json!({"ctx": ctx, "cuts": cut_feats, "detail": d});
        if bytes.len() < 200_000 {
            j["input_hex"] = json!(hex(&bytes));
        }
        out.fail(class, j)
    };
    let mut wb = match guard(|| Xls::new(Cursor::new(bytes.clone()))) {
        Ok(Ok(w)) => w,
        Ok(Err(e)) => {
            fail(out, format!("c12|open_error|{}|{}", super::c01::err_variant(&e), cutclass), json!(format!("{:?}", e)));
            return;
        }
        Err(f) => {
            fail(out, format!("c12|open|fault:{}|{}", f.class, cutclass), json!(f.detail));
            return;
        }
    };
    let sheet_name = &expected.iter().find(|e| e.0 == u32::MAX).unwrap().1;
    let names = wb.sheet_names();
    if names != vec![sheet_name.clone()] {
        fail(out, format!("c12|sheet_name|{}", if wide_other { "16bit" } else { "8bit" }), json!({"got": names, "want": sheet_name}));
        return;
    }
    let range = match guard(|| wb.worksheet_range(sheet_name)) {
        Ok(Ok(r)) => r,
        Ok(Err(e)) => {
            fail(out, format!("c12|read_error|{}", super::c01::err_variant(&e)), json!(format!("{:?}", e)));
            return;
        }
        Err(f) => {
            fail(out, format!("c12|read|fault:{}", f.class), json!(f.detail));
            return;
        }
    };
    let n = strings.len() as u32;
    for (i, want) in &expected {
        let (pos, what) = match *i {
            u32::MAX => continue,
            x if x == u32::MAX - 1 => ((n, 1), "label"),
            x if x == u32::MAX - 2 => ((n, 2), "formula_string"),
            x => ((x, 0), "sst"),
        };
        out.sum("strings_compared", 1);
        let got = range.get_value(pos);
        if got != Some(&Data::String(want.clone())) {
            let class = if what == "sst" {
                // first wrong string: is it the one being cut or a later one (shift)?
                format!("c12|cell_value|{}", cutclass)
            } else {
                format!("c12|{}_value|{}", what, if wide_other { "16bit" } else { "8bit" })
            };
            fail(out, class, json!({"string_index": i, "got": format!("{:?}", got).chars().take(200).collect::<String>(), "want": want.chars().take(200).collect::<String>()}));
            return;
        }
    }
    if range.used_cells().count() != expected.len() - 1 {
        fail(out, format!("c12|extra_cells|{}", cutclass), json!({"used": range.used_cells().count(), "want": expected.len() - 1}));
    }
    out.case(Some(hash_bytes(&bytes)));
}

fn small_table(rng: &mut Rng, serial: &mut u64) -> Vec<SstStr> {
    let n = 2 + rng.usize(4);
    (0..n)
        .map(|i| {
            *serial += 1;
            let class = rng.below(3) as u8;
            let len = if i == 1 && rng.chance(1, 4) { 0 } else { 3 + rng.usize(8) };
            let decor = rng.chance(1, 2);
            SstStr {
                text: if len == 0 { String::new() } else { gen_text(rng, *serial, len, class) },
                runs: if decor { 1 + rng.usize(3) } else { 0 },
                ext: if decor && rng.bool() { 1 + rng.usize(12) } else { 0 },
                force_wide: rng.chance(1, 4),
            }
        })
        .collect()
}

impl Prop for C12 {
    fn id(&self) -> &'static str {
        "C12"
    }
    fn rule(&self) -> String {
        "shared-string tables (Latin-1-only / BMP / astral text, empty items, rich runs, ExtRst blocks) written with an explicit CONTINUE split plan: for small tables EVERY single cut point (between strings, before/inside character data with 8->8, 8->16, 16->8, 16->16 re-compression, before/inside rgRun, before/inside ExtRst) x both compression choices is enumerated (thorough: also every pair); large tables get random multi-cut plans plus the forced cuts at the 8224-byte record limit; one uniquely placed LABELSST cell per string, plus a sheet name, a LABEL and a FORMULA+STRING value in 8-bit and 16-bit storage. Non-trivial = file with >= 1 cut; distinct by hash of the file.".into()
    }
    fn assumptions(&self) -> Vec<String> {
        vec![
            "trusted base: the BIFF8 SST/CONTINUE reference encoder ([MS-XLS] 2.4.265, 2.5.293)".into(),
            "string headers (cch, flags, cRun, cbExtRst) are never split; FormatRun entries are only split at 4-byte boundaries".into(),
            "random multi-cut plans avoid cutting between the halves of a surrogate pair; the exhaustive single-cut enumeration includes those cuts".into(),
        ]
    }
    fn units(&self, tier: Tier) -> u64 {
        tier.pick(16, 160)
    }
    fn exhaustive(&self, tier: Tier) -> Option<String> {
        Some(format!("every single CONTINUE cut point{} of each small table x both re-compression choices", if tier == Tier::Thorough { " and every pair of cut points" } else { "" }))
    }
    fn mandatory(&self, _t: Tier) -> Vec<String> {
        ["cut:between_strings", "cut:in_chars:8to8", "cut:in_chars:8to16", "cut:in_chars:16to8", "cut:in_chars:16to16", "cut:zero_chars_before_cut:8to8", "cut:before_runs", "cut:in_runs", "cut:in_ext", "cut:surrogate_split:16to16", "cut:forced_at_record_limit", "other_strings:16bit", "other_strings:8bit"]
            .iter().map(|s| s.to_string()).collect()
    }
    fn run_unit(&self, ctx: &Ctx, unit: u64, out: &mut UnitResult) {
        let mut rng = Rng::derive(ctx.seed, "c12", unit);
        let mut serial = unit * 1000;
        // exhaustive single cuts on small tables
        for t in 0..ctx.tier.pick(4, 8) {
            let table = small_table(&mut rng, &mut serial);
            let kinds = biff8::sst_cut_kinds(&table);
            let ctxj = json!({"unit": unit, "table": t, "strings": table.iter().map(|s| format!("{:?}", s)).collect::<Vec<_>>()});
            if out.samples.is_empty() {
                out.sample(json!({"table": table.iter().map(|s| s.text.clone()).collect::<Vec<_>>(), "cut_points": kinds.len()}));
            }
            for k in 1..kinds.len() {
                for wide in [false, true] {
                    let plan = SplitPlan { cuts: [k].into_iter().collect(), wide_after_cut: wide, random_pct: 0, allow_surrogate_cuts: true };
                    let mut c = ctxj.clone();
                    c["cut_before_atom"] = json!(k);
                    c["cut_kind"] = json!(kinds[k]);
                    check(&table, &plan, wide, Some(kinds[k]), &mut rng, out, c);
                }
            }
            if ctx.tier == Tier::Thorough {
                for a in 1..kinds.len() {
                    for b in a + 1..kinds.len() {
                        if kinds[a] == "surrogate_split" || kinds[b] == "surrogate_split" || (a + b + t as usize) % 3 != 0 {
                            continue;
                        }
                        let plan = SplitPlan { cuts: [a, b].into_iter().collect(), wide_after_cut: (a + b) % 2 == 0, random_pct: 0, allow_surrogate_cuts: false };
                        let mut c = ctxj.clone();
                        c["cut_pair"] = json!([a, b]);
                        check(&table, &plan, false, None, &mut rng, out, c);
                    }
                }
            }
        }
        // larger tables, random multi-cut plans and forced cuts at the record limit
        for t in 0..ctx.tier.pick(6, 20) {
            let n = 1 + rng.usize(if t == 0 { 3 } else { 60 }) + (t == 1) as usize * 2;
            let table: Vec<SstStr> = (0..n)
                .map(|i| {
                    serial += 1;
                    let class = rng.below(3) as u8;
                    let len = match rng.below(10) {
                        0 => 0,
                        1 => 1,
                        2 if t == 0 => 9000 + rng.usize(24_000),
                        3 => 200 + rng.usize(2000),
                        _ => 2 + rng.usize(40),
                    };
                    let _ = i;
                    let decor = rng.chance(1, 3);
                    SstStr {
                        text: if len == 0 { String::new() } else { gen_text(&mut rng, serial, len.min(32_000), class) },
                        // one string whose rgRun block alone exceeds 64 KiB (cRun * 4 does not fit 16 bits)
                        runs: if t == 1 && i == 0 { 16_384 + rng.usize(20_000) } else if decor { 1 + rng.usize(20) } else { 0 },
                        ext: if decor && rng.bool() { 1 + rng.usize(300) } else { 0 },
                        force_wide: rng.chance(1, 5),
                    }
                })
                .collect();
            let plan = SplitPlan { cuts: Default::default(), wide_after_cut: rng.bool(), random_pct: *rng.pick(&[0, 1, 5, 20]), allow_surrogate_cuts: false };
            let ctxj = json!({"unit": unit, "big_table": t, "n_strings": n, "plan": format!("{:?}", plan)});
            let wide = rng.bool();
            check(&table, &plan, wide, None, &mut rng, out, ctxj);
        }
        let _ = (BiffChoices::default(), BiffExtra::default());
    }
}
