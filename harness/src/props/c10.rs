//! C10 — a number is typed DateTime exactly when its cell style is a date/time format.
//! (a) the real classifier (hook) vs a reference classifier that works on the *token list* the
//!     format string was generated from: all token sequences of length <= 3 (x section variants),
//!     sampled longer ones, all built-in ids;
//! (b) generated workbooks in xlsx / xlsb / xls with random style tables, every numeric encoding
//!     and both date systems, compared with the model.

use crate::core::*;
use crate::enc::biff8::{BiffChoices, BiffExtra};
use crate::enc::cfb::CfbChoices;
use crate::enc::xlsb::{XlsbChoices, XlsbExtra};
use crate::enc::xlsx::XlsxChoices;
use crate::model::*;
use crate::monitor::guard;
use crate::prng::{hash_bytes, hash_str, Rng};
use serde_json::json;

pub struct C10;

#[derive(Clone, Copy, PartialEq, Eq, Debug)]
enum K {
    /// d, y: calendar tokens
    Cal,
    /// h, m, s: time tokens (m is month or minute; a date token either way)
    Time,
    AmPm,
    Elapsed,
    Num,
    Text,
    General,
    Quoted,
    Escaped,
    Bracket,
    Sep,
}

const TOKENS: &[(&str, K)] = &[
    ("d", K::Cal), ("dd", K::Cal), ("ddd", K::Cal), ("dddd", K::Cal), ("D", K::Cal), ("yy", K::Cal), ("yyyy", K::Cal), ("YYYY", K::Cal),
    ("m", K::Time), ("mm", K::Time), ("mmm", K::Time), ("mmmm", K::Time), ("mmmmm", K::Time), ("M", K::Time), ("MM", K::Time),
    ("h", K::Time), ("hh", K::Time), ("H", K::Time), ("s", K::Time), ("ss", K::Time), ("SS", K::Time),
    ("AM/PM", K::AmPm), ("am/pm", K::AmPm), ("A/P", K::AmPm), ("a/p", K::AmPm),
    ("[h]", K::Elapsed), ("[hh]", K::Elapsed), ("[m]", K::Elapsed), ("[mm]", K::Elapsed), ("[s]", K::Elapsed), ("[ss]", K::Elapsed), ("[H]", K::Elapsed), ("[MM]", K::Elapsed),
    ("0", K::Num), ("#", K::Num), ("?", K::Num), ("0.00", K::Num), ("#,##0", K::Num), ("%", K::Num), ("E+00", K::Num), (".", K::Num), (",", K::Num),
    ("@", K::Text), ("General", K::General),
    ("\"text\"", K::Quoted), ("\"d-m-y h:s\"", K::Quoted), ("\"c:\\\"", K::Quoted), ("\"_\"", K::Quoted), ("\"a;b\"", K::Quoted), ("\"[h]\"", K::Quoted), ("\"AM/PM\"", K::Quoted), ("\"\"", K::Quoted),
    ("\\d", K::Escaped), ("\\ ", K::Escaped), ("\\-", K::Escaped), ("\\;", K::Escaped), ("\\\"", K::Escaped), ("\\\\", K::Escaped), ("_d", K::Escaped), ("_)", K::Escaped), ("_ ", K::Escaped), ("_\"", K::Escaped),
    ("[Red]", K::Bracket), ("[Blue]", K::Bracket), ("[Magenta]", K::Bracket), ("[Color 3]", K::Bracket), ("[>=100]", K::Bracket), ("[<0]", K::Bracket), ("[$-409]", K::Bracket), ("[$€-2]", K::Bracket), ("[$-F800]", K::Bracket), ("[DBNum1]", K::Bracket), ("[$-1010000]", K::Bracket),
    // literal non-ASCII letters whose Unicode case mappings are ASCII date letters (S, SS, H, Y, k)
    ("\u{df}", K::Sep), ("\u{17f}", K::Sep), ("\u{1e96}", K::Sep), ("\u{1e99}", K::Sep), ("\u{212a}", K::Sep), ("\u{20ac}", K::Sep), ("[$\u{17f}-407]", K::Bracket),
    ("-", K::Sep), ("/", K::Sep), (":", K::Sep), (" ", K::Sep), ("(", K::Sep), (")", K::Sep),
];

/// reference classification of a first section given as token kinds
fn classify(kinds: &[K]) -> FmtClass {
    let elapsed = kinds.contains(&K::Elapsed);
    let date = kinds.iter().any(|k| matches!(k, K::Cal | K::Time | K::AmPm));
    if elapsed {
        FmtClass::Duration
    } else if date {
        FmtClass::Date
    } else {
        FmtClass::Other
    }
}

/// is the token sequence inside the generated grammar (see the property's relaxations)
fn admissible(seq: &[usize]) -> bool {
    let kinds: Vec<K> = seq.iter().map(|i| TOKENS[*i].1).collect();
    // General stands alone (apart from brackets and literals)
    if kinds.contains(&K::General) && kinds.iter().any(|k| !matches!(k, K::General | K::Bracket | K::Quoted | K::Escaped)) {
        return false;
    }
    if kinds.iter().filter(|k| **k == K::General).count() > 1 {
        return false;
    }
    // elapsed tokens: not mixed with calendar tokens or AM/PM, and not preceded by a time token
    if let Some(p) = kinds.iter().position(|k| *k == K::Elapsed) {
        if kinds.iter().any(|k| matches!(k, K::Cal | K::AmPm)) {
            return false;
        }
        if kinds[..p].iter().any(|k| *k == K::Time) {
            return false;
        }
    }
    // adjacent letter tokens would fuse into another token (dd + d); require a non-letter between
    for w in seq.windows(2) {
        let (a, b) = (TOKENS[w[0]], TOKENS[w[1]]);
        let letters = |k: K| matches!(k, K::Cal | K::Time | K::AmPm | K::General);
        if letters(a.1) && letters(b.1) {
            return false;
        }
        // a trailing "a/p"-like prefix must not fuse: AM/PM followed by a time/cal letter is covered above
        if a.1 == K::Num && a.0 == "E+00" && b.1 == K::Num && b.0 != "%" {
            return false;
        }
    }
    true
}

fn check_format(code: &str, want: FmtClass, out: &mut UnitResult, culprit: &dyn Fn() -> String) {
    let w = match want {
        FmtClass::Other => 0u8,
        FmtClass::Date => 1,
        FmtClass::Duration => 2,
    };
    match guard(|| calamine::verif::classify_format(code)) {
        Ok(g) if g == w => {}
        Ok(g) => out.fail(format!("c10|classifier|want{}got{}|{}", w, g, culprit()), json!({"format": code})),
        Err(f) => out.fail(format!("c10|classifier|fault:{}", f.class), json!({"format": code})),
    }
}

/// the token kinds (deduplicated, sorted) of a sequence: the class vocabulary of a mismatch
fn kinds_label(seq: &[usize]) -> String {
    let mut v: Vec<String> = seq.iter().map(|i| format!("{:?}", TOKENS[*i].1)).collect();
    v.sort();
    v.dedup();
    v.join("+")
}

fn exhaustive(unit: u64, n_units: u64, out: &mut UnitResult) {
    let n = TOKENS.len();
    let mut idx = 0u64;
    let mut run = |seq: &[usize], out: &mut UnitResult| {
        if !admissible(seq) {
            return;
        }
        let text: String = seq.iter().map(|i| TOKENS[*i].0).collect();
        let kinds: Vec<K> = seq.iter().map(|i| TOKENS[*i].1).collect();
        let want = classify(&kinds);
        let label = || kinds_label(seq);
        // one section; a second section that is a date format; four sections
        check_format(&text, want, out, &label);
        check_format(&format!("{};yyyy-mm-dd", text), want, out, &label);
        check_format(&format!("{};[Red]-{};[h]:mm;@", text, text), want, out, &label);
        out.evals += 3;
    };
    for a in 0..n {
        idx += 1;
        if idx % n_units == unit {
            run(&[a], out);
        }
        for b in 0..n {
            idx += 1;
            if idx % n_units == unit {
                run(&[a, b], out);
            }
            for c in 0..n {
                idx += 1;
                if idx % n_units == unit {
                    run(&[a, b, c], out);
                }
            }
        }
    }
    out.distinct_by_construction += out.evals;
    out.feat("token_sequences<=3");
    // built-in ids
    if unit == 0 {
        for id in 0u16..=400 {
            let want = match id {
                14..=22 | 45 | 47 => Some(1u8),
                46 => Some(2),
                27..=36 | 50..=58 | 59..=62 | 67..=81 => None, // locale dependent: not checked
                _ => Some(0),
            };
            let a = guard(|| calamine::verif::builtin_format_by_id(id.to_string().as_bytes()));
            let b = guard(|| calamine::verif::builtin_format_by_code(id));
            if let Some(w) = want {
                if !matches!(a, Ok(x) if x == w) {
                    out.fail("c10|builtin_by_id".to_string(), json!({"id": id, "got": format!("{:?}", a.ok()), "want": w}));
                }
                if !matches!(b, Ok(x) if x == w) {
                    out.fail("c10|builtin_by_code".to_string(), json!({"id": id, "got": format!("{:?}", b.ok()), "want": w}));
                }
            }
            out.evals += 2;
            out.distinct_by_construction += 2;
        }
        // very long formats: many bracket groups / literals / sections keep their class, and
        // unbalanced or deeply nested brackets (not legal formats: no class is expected) must not
        // make the scanner panic or overflow
        for n in [1usize, 2, 127, 128, 255, 256, 257, 300, 1000, 70_000] {
            let many = |unit: &str| unit.repeat(n);
            for (code, want) in [
                (format!("{}yyyy", many("[Red]")), Some(FmtClass::Date)),
                (format!("{}0.00", many("[Red]")), Some(FmtClass::Other)),
                (format!("{}[h]:mm", many("\"d\"")), Some(FmtClass::Duration)),
                (format!("{}mm", many("\\d")), Some(FmtClass::Date)),
                (format!("0{}", many(";yyyy")), Some(FmtClass::Other)),
                (format!("{}yyyy", many("[")), None),
                (format!("{}yyyy{}", many("["), many("]")), None),
                (format!("{}yyyy", many("]")), None),
                (format!("{}yyyy", many("\"")), None),
            ] {
                match want {
                    Some(w) => check_format(&code, w, out, &|| format!("long_format:{}", n)),
                    None => {
                        if let Err(f) = guard(|| calamine::verif::classify_format(&code)) {
                            out.fail(format!("c10|classifier|fault:{}", f.class), json!({"format_prefix": code.chars().take(40).collect::<String>(), "repeat": n}));
                        }
                    }
                }
                out.evals += 1;
                out.distinct_by_construction += 1;
            }
        }
        out.feat("long_formats");
        out.feat("builtin_ids");
        out.sample(json!({"builtin_ids": "0..=400 through builtin_format_by_id and builtin_format_by_code"}));
    }
}

fn gen_format(rng: &mut Rng, max_len: usize) -> (String, FmtClass, Vec<usize>) {
    loop {
        let len = 1 + rng.usize(max_len);
        let seq: Vec<usize> = (0..len).map(|_| rng.usize(TOKENS.len())).collect();
        if !admissible(&seq) {
            continue;
        }
        let first: String = seq.iter().map(|i| TOKENS[*i].0).collect();
        let kinds: Vec<K> = seq.iter().map(|i| TOKENS[*i].1).collect();
        let want = classify(&kinds);
        let text = match rng.below(4) {
            0 => format!("{};[Red]\\-yyyy;[h]:mm", first),
            1 => format!("{};@", first),
            _ => first,
        };
        return (text, want, seq);
    }
}

fn workbooks(rng: &mut Rng, out: &mut UnitResult, unit: u64, i: u64) {
    // a random style table: builtin and custom formats in any order, with unused entries
    let mut xfs: Vec<NumFmt> = vec![];
    let n_xf = 2 + rng.usize(10);
    let mut next_id = 164u16;
    // ids a format record may legally (re)define: the locale-dependent ones, and - as some
    // writers do - built-in ids such as 14 (a date) or 2 (a number), with any code
    let mut low_ids: Vec<u16> = vec![5, 6, 7, 8, 23, 24, 25, 26, 41, 42, 43, 44, 63, 64, 65, 66, 3, 4, 12, 13, 16, 17, 19, 38, 39, 40];
    let mut customs: Vec<NumFmt> = vec![];
    for _ in 0..n_xf {
        if rng.chance(2, 5) {
            let id = *rng.pick(&[0u16, 1, 2, 9, 10, 11, 14, 15, 18, 20, 21, 22, 37, 45, 46, 47, 48, 49]);
            let class = match id {
                14..=22 | 45 | 47 => FmtClass::Date,
                46 => FmtClass::Duration,
                _ => FmtClass::Other,
            };
            xfs.push(NumFmt { id, code: None, class });
        } else if !customs.is_empty() && rng.chance(1, 4) {
            xfs.push(rng.pick(&customs).clone()); // two xfs sharing one custom format
        } else {
            let (code, class, _) = gen_format(rng, 6);
            // format records may also redefine the ids the specifications reserve for
            // locale-dependent built-ins (5-8, 23-26, 41-44, 63-66)
            let id = if !low_ids.is_empty() && rng.chance(1, 4) {
                out.feat("custom_format_id<164");
                low_ids.swap_remove(rng.usize(low_ids.len()))
            } else {
                next_id += 1 + rng.range(0, 3) as u16;
                next_id - 1
            };
            let f = NumFmt { id, code: Some(code), class };
            customs.push(f.clone());
            xfs.push(f);
        }
    }
    // style tables with more than 256 cell XFs: the index a cell carries does not fit one byte
    if rng.chance(1, 6) {
        out.feat("xf_index>=256");
        for _ in 0..(250 + rng.usize(400)) {
            let id = *rng.pick(&[0u16, 2, 14, 46, 20, 1, 22, 49]);
            let class = match id {
                14..=22 => FmtClass::Date,
                46 => FmtClass::Duration,
                _ => FmtClass::Other,
            };
            xfs.push(NumFmt { id, code: None, class });
        }
    }
    for f in &xfs {
        out.feat(&format!("style:{:?}", f.class));
    }
    let mut book = MBook { xfs, date1904: rng.bool(), ..Default::default() };
    let mut sh = MSheet::new("Data");
    let mut serial = 1u64;
    for r in 0..(6 + rng.usize(20)) as u32 {
        for c in 0..3u32 {
            if rng.chance(1, 4) {
                continue;
            }
            serial += 1;
            let v = match rng.below(5) {
                0 => 40_000.0 + serial as f64,                // whole-day serial (RK int)
                1 => 40_000.0 + serial as f64 + 0.25,         // RK x100 candidates
                2 => serial as f64 * 0.123456789,
                3 => (serial % 3) as f64,
                _ => 1.5 + serial as f64,
            };
            let mut cell = MCell { val: Val::Num(v), xf: Some(rng.usize(book.xfs.len())), formula: None };
            if rng.chance(1, 5) {
                cell.formula = Some("A1+1".into());
            }
            if rng.chance(1, 10) {
                cell.xf = None;
            }
            sh.cells.insert((r, c), cell);
        }
    }
    book.sheets.push(sh);
    if book.date1904 {
        out.feat("date1904");
    }
    let ctxj = json!({"unit": unit, "case": i, "formats": book.xfs.iter().map(|f| format!("{}:{:?}:{:?}", f.id, f.code, f.class)).collect::<Vec<_>>()});
    if out.samples.len() < 2 {
        out.sample(ctxj.clone());
    }
    let x = crate::enc::xlsx::encode(&book, &XlsxChoices::random(rng), rng);
    out.feat_n("xlsx:xf_without_numFmtId", *x.counts.get("xf_without_numFmtId").unwrap_or(&0));
    out.feat("workbook:xlsx");
    super::c01::check_xlsx(&book, &x, "c10|xlsx", out, &ctxj);
    out.case(Some(hash_bytes(&x.bytes)));
    // [MS-XLS] / [MS-XLSB] restrict format records to the ids 5-8, 23-26, 41-44, 63-66 and 164-382:
    // a workbook that re-declares another built-in id only exists as xlsx
    let legal_in_binary = |id: u16| id >= 164 || matches!(id, 5..=8 | 23..=26 | 41..=44 | 63..=66);
    if book.xfs.iter().any(|f| f.code.is_some() && !legal_in_binary(f.id)) {
        out.feat("xlsx:builtin_id_redeclared");
        return;
    }
    let b = crate::enc::xlsb::encode(&book, &XlsbChoices::random(rng), &XlsbExtra::default(), rng);
    out.feat("workbook:xlsb");
    for f in b.cell_feats.values() {
        out.feat(&format!("xlsb:{}", f));
    }
    super::c03::check_xlsb(&book, &b, "c10|xlsb", out, &ctxj);
    out.case(Some(hash_bytes(&b.bytes)));
    let (bytes, enc) = crate::enc::xls_file(&book, &BiffChoices::random(rng), &BiffExtra::default(), &CfbChoices::default(), &[], rng);
    out.feat("workbook:xls");
    for f in enc.cell_feats.values() {
        out.feat(&format!("xls:{}", f));
    }
    super::c02::check_xls(&book, &bytes, &enc.cell_feats, "c10|xls", out, &ctxj);
    out.case(Some(hash_bytes(&bytes)));
}

const EXH_UNITS: u64 = 16;

impl Prop for C10 {
    fn id(&self) -> &'static str {
        "C10"
    }
    fn rule(&self) -> String {
        format!("(a) format strings generated from a token grammar of {} tokens (date d/y, time h/m/s, AM/PM markers, elapsed [h]/[m]/[s], numeric, text, General, quoted literals containing date letters / backslash / underscore / semicolon, backslash and underscore escapes, colour / condition / locale / DBNum brackets, separators): ALL admissible sequences of length <= 3, each as a single section, followed by a date section, and in a four-section format; longer sequences sampled; every built-in id 0..=400 through both built-in tables; (b) workbooks with random style tables (built-in and custom ids in any order, shared custom formats, gaps in the custom ids) x numeric cells in every encoding (xlsx n/untyped/formula-cached; xlsb Real/RK x4/FmlaNum; xls NUMBER/RK x4/MULRK/FORMULA) x both date systems in three formats. The reference classifier works on the generating token list, not on the text. distinct = token sequences (by construction) + files (by hash).", TOKENS.len())
    }
    fn assumptions(&self) -> Vec<String> {
        vec![
            "locale-dependent built-in ids (27-36, 50-58, 59-62, 67-81) are not checked".into(),
            "'General' only occurs alone (with brackets / literals); elapsed tokens are not mixed with calendar tokens or AM/PM and come before any h/m/s token of their section; letter tokens are separated by a non-letter token; the fill-character escape (*x) is not generated".into(),
            "xlsb/xls custom formats only use ids >= 164".into(),
        ]
    }
    fn units(&self, tier: Tier) -> u64 {
        EXH_UNITS + tier.pick(16, 160)
    }
    fn exhaustive(&self, _t: Tier) -> Option<String> {
        Some(format!("all admissible token sequences of length <= 3 over {} tokens x 3 section variants; built-in format ids 0..=400", TOKENS.len()))
    }
    fn mandatory(&self, _t: Tier) -> Vec<String> {
        ["token_sequences<=3", "builtin_ids", "long_formats", "custom_format_id<164", "xlsx:builtin_id_redeclared", "xlsx:xf_without_numFmtId", "sampled_long_formats", "workbook:xlsx", "workbook:xlsb", "workbook:xls", "style:Date", "style:Duration", "style:Other", "date1904", "xlsb:BrtCellRk:RkInt", "xlsb:BrtCellReal", "xlsb:BrtFmlaNum", "xls:num:NUMBER", "xls:num:RK:RkInt", "xls:formula:num"]
            .iter().map(|s| s.to_string()).collect()
    }
    fn run_unit(&self, ctx: &Ctx, unit: u64, out: &mut UnitResult) {
        if unit < EXH_UNITS {
            exhaustive(unit, EXH_UNITS, out);
            return;
        }
        let mut rng = Rng::derive(ctx.seed, "c10", unit);
        for _ in 0..ctx.tier.pick(6000, 60_000) {
            let (text, want, seq) = gen_format(&mut rng, 9);
            check_format(&text, want, out, &|| kinds_label(&seq));
            out.case(Some(hash_str(&text)));
        }
        out.feat("sampled_long_formats");
        for i in 0..ctx.tier.pick(20, 80) {
            workbooks(&mut rng, out, unit, i);
        }
    }
}
