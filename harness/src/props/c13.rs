//! C13 — compound-file streams are recovered whatever the container's physical layout.
//! Byte equality per stream through the cfb hook, and workbook equality through Xls::new, across
//! many physical layouts of the same stream set.

use crate::core::*;
use crate::enc::biff8::{BiffChoices, BiffExtra};
use crate::enc::cfb::{self, CfbChoices, Entry};
use crate::gen;
use crate::monitor::guard;
use crate::prng::{hash_bytes, Rng};
use serde_json::json;

pub struct C13;

fn stream_bytes(rng: &mut Rng, len: usize, tag: u8) -> Vec<u8> {
    // position-dependent content so that a misplaced sector is visible
    let salt = rng.next_u32();
    (0..len).map(|i| ((i as u32).wrapping_mul(2_654_435_761).wrapping_add(salt) >> 13) as u8 ^ tag).collect()
}

fn pick_size(rng: &mut Rng, tier: Tier) -> usize {
    match rng.below(12) {
        0 => 0,
        1 => *rng.pick(&[1usize, 63, 64, 65, 127, 128, 129]),
        2 => *rng.pick(&[4095usize, 4096, 4097]),
        3 => *rng.pick(&[511usize, 512, 513, 1023, 1024, 1025]),
        4 => 4096 * rng.range(1, 6) as usize + *rng.pick(&[0usize, 1, 4095]),
        5 => 512 * rng.range(8, 40) as usize + *rng.pick(&[0usize, 1, 511]),
        6 if tier == Tier::Thorough => rng.range(100_000, 600_000) as usize,
        _ => rng.range(1, 9000) as usize,
    }
}

fn check_container(entries: &[Entry], ch: &CfbChoices, rng: &mut Rng, out: &mut UnitResult, ctx: &serde_json::Value) {
    let built = cfb::build(entries, ch, rng);
    for f in ch.features() {
        out.feat(&f);
    }
    if built.n_difat_sectors > 0 {
        out.feat("difat_sectors");
        if built.n_difat_sectors > 1 {
            out.feat("difat_chain>1");
        }
    }
    if built.n_mini_sectors > 0 {
        out.feat("mini_stream");
    } else {
        out.feat("no_mini_stream");
    }
    let names: Vec<&str> = entries.iter().filter(|e| e.data.is_some()).map(|e| e.name.as_str()).collect();
    let fail = |out: &mut UnitResult, class: String, d: serde_json::Value| {
        let mut j = json!({"ctx": ctx, "detail": d});
        if built.bytes.len() < 300_000 {
            j["input_hex"] = json!(hex(&built.bytes));
        }
        out.fail(class, j)
    };
    let layout = format!("{}|{}", if ch.v4 { "v4" } else { "v3" }, if built.n_mini_sectors > 0 { "mini" } else { "nomini" });
    match guard(|| calamine::verif::cfb_streams_named(&built.bytes, &names)) {
        Ok(Ok(got)) => {
            for ((n, g), e) in names.iter().zip(got.iter()).zip(entries.iter().filter(|e| e.data.is_some())) {
                let want = e.data.as_ref().unwrap();
                out.sum("streams_compared", 1);
                let kind = if want.is_empty() { "empty" } else if want.len() < 4096 { "mini" } else { "regular" };
                match g {
                    Ok(b) if b == want => {}
                    Ok(b) => {
                        let sym = if b.len() != want.len() { "length" } else { "content" };
                        fail(out, format!("c13|stream_{}|{}|{}", sym, kind, layout), json!({"stream": n, "want_len": want.len(), "got_len": b.len(), "first_diff": b.iter().zip(want.iter()).position(|(a, b)| a != b)}));
                        return;
                    }
                    Err(e) => {
                        fail(out, format!("c13|stream_error|{}|{}", kind, layout), json!({"stream": n, "err": e}));
                        return;
                    }
                }
            }
        }
        Ok(Err(e)) => fail(out, format!("c13|open_error|{}", layout), json!(e)),
        Err(f) => fail(out, format!("c13|fault:{}", f.class), json!(f.detail)),
    }
    out.case(Some(built.layout_hash));
    out.sum("distinct_layout_hashes_seen", 1);
}

impl Prop for C13 {
    fn id(&self) -> &'static str {
        "C13"
    }
    fn rule(&self) -> String {
        "stream sets (Workbook + 0..6 others, optional VBA storage tree; sizes 0, 1, 63..65, 4095..4097, sector multiples +-1, up to 600 KB in thorough and > 7 MB DIFAT cases) written by an independent compound-file writer under random physical layouts (512/4096-byte sectors, sequential/reversed/random chain order, free sectors, FAT/DIFAT/directory/mini-FAT placement front/back/scattered, shuffled directory with unallocated entries, mini-sector permutation, DIFAT chains with backward links) and read back byte for byte through the cfb hook; generated workbooks are additionally opened with Xls::new under every layout and compared with the model. Non-trivial = container with >= 1 non-empty stream and a non-default layout; distinct by hash of header + FAT + directory.".into()
    }
    fn assumptions(&self) -> Vec<String> {
        vec!["trusted base: the compound-file reference writer ([MS-CFB]); stream names are unique across the whole container (calamine looks streams up by name only)".into()]
    }
    fn units(&self, tier: Tier) -> u64 {
        tier.pick(16, 240)
    }
    fn mandatory(&self, tier: Tier) -> Vec<String> {
        let mut v: Vec<String> = ["sector:512", "sector:4096", "chain:Sequential", "chain:Reversed", "chain:Random", "mini:Reversed", "mini:Random", "meta:Front", "meta:Back", "meta:Scattered", "free_sectors", "dir_shuffled", "dir_holes", "overallocated_chains", "v3_size_high_dword_garbage", "dir_name_tail_garbage", "difat_end_freesect", "name_differing_only_in_case", "mini_stream", "no_mini_stream", "xls_workbook_via_layout", "xls_with_vba_via_layout", "book_and_workbook_streams", "size:0", "size:4095", "size:4096", "size:4097"]
            .iter().map(|s| s.to_string()).collect();
        let _ = tier;
        v.push("difat_sectors".into());
        v.push("difat_chain>1".into());
        v.push("fat_237_sectors".into());
        v
    }
    fn run_unit(&self, ctx: &Ctx, unit: u64, out: &mut UnitResult) {
        let mut rng = Rng::derive(ctx.seed, "c13", unit);
        let n = ctx.tier.pick(25, 110);
        for i in 0..n {
            let mut entries = vec![];
            let n_streams = 1 + rng.usize(6);
            for s in 0..n_streams {
                let len = if i < 8 && s == 0 { [0usize, 1, 64, 4095, 4096, 4097, 513, 20_000][i as usize] } else { pick_size(&mut rng, ctx.tier) };
                for z in [0usize, 4095, 4096, 4097] {
                    if len == z {
                        out.feat(&format!("size:{}", z));
                    }
                }
                let name = if s == 0 { if rng.chance(1, 6) { "Book".to_string() } else { "Workbook".to_string() } } else { format!("Stream{} é{}", s, s) };
                entries.push(Entry::stream(&name, stream_bytes(&mut rng, len, s as u8)));
            }
            if rng.chance(1, 4) {
                // a storage tree like a VBA project
                let st = entries.len();
                entries.push(Entry { name: "_VBA_PROJECT_X".into(), data: None, parent: None });
                entries.push(Entry { name: "VBA".into(), data: None, parent: Some(st) });
                entries.push(Entry { name: "dirx".into(), data: Some(stream_bytes(&mut rng, 700, 9)), parent: Some(st + 1) });
                entries.push(Entry { name: "ModuleX".into(), data: Some(stream_bytes(&mut rng, 5000, 10)), parent: Some(st + 1) });
            }
            if rng.chance(1, 3) {
                // a stream in another storage whose name differs from the first stream's only in
                // case (names are unique per storage; lookups are by exact name)
                let decoy = entries[0].name.to_uppercase();
                if decoy != entries[0].name && !entries.iter().any(|e| e.name == decoy) {
                    let st = entries.len();
                    entries.push(Entry { name: "OtherStorage".into(), data: None, parent: None });
                    entries.push(Entry { name: decoy, data: Some(stream_bytes(&mut rng, 777, 11)), parent: Some(st) });
                    out.feat("name_differing_only_in_case");
                }
            }
            let ctxj = json!({"unit": unit, "case": i, "sizes": entries.iter().map(|e| e.data.as_ref().map_or(-1, |d| d.len() as i64)).collect::<Vec<_>>()});
            for k in 0..4 {
                let ch = if k == 0 { CfbChoices::default() } else { CfbChoices::random(&mut rng) };
                let mut c = ctxj.clone();
                c["layout"] = json!(format!("{:?}", ch));
                check_container(&entries, &ch, &mut rng, out, &c);
            }
            if out.samples.is_empty() {
                out.sample(ctxj);
            }
        }
        // workbooks through layouts
        for i in 0..ctx.tier.pick(6, 20) {
            let mut book = gen::gen_book(&mut rng, &gen::XLS_LIMITS, &gen::GenOpts { empty_strings: false, max_sheets: 2, max_cells: 60, formulas: false, styles: true });
            if i % 2 == 1 {
                // enough cells for the Workbook stream to live in regular sectors (>= 4096 bytes)
                let sh = &mut book.sheets[0];
                let r0 = sh.cells.keys().map(|p| p.0).max().unwrap_or(0).min(60_000) + 1;
                for r in 0..60u32 {
                    for c in 0..8u32 {
                        sh.cells.insert((r0 + r, c), crate::model::MCell::v(crate::model::Val::Num((r * 8 + c) as f64 + 0.125)));
                    }
                }
            }
            let bc = BiffChoices::default();
            for k in 0..4 {
                let cc = if k == 0 { CfbChoices::default() } else { CfbChoices::random(&mut rng) };
                let mut cc = cc;
                let mut more = if rng.bool() { vec![Entry::stream("\u{5}SummaryInformation", stream_bytes(&mut rng, 300, 3))] } else { vec![] };
                if rng.chance(1, 3) {
                    // a dual-format container: a `Book` (BIFF5) stream next to `Workbook`, which wins
                    // wherever the two entries sit in the directory
                    more.push(Entry::stream("Book", stream_bytes(&mut rng, 1500, 5)));
                    cc.shuffle_dir = true;
                    out.feat("book_and_workbook_streams");
                }
                // every other workbook carries a VBA project whose module stream lives in regular
                // sectors (>= 4096 bytes): the reader fetches it before the Workbook stream
                let module_src: Option<Vec<u8>> = (i % 2 == 1).then(|| (0..6000).map(|j| b'a' + ((j * 7 + i as usize) % 23) as u8).collect());
                if let Some(src) = &module_src {
                    use crate::enc::ovba::{self, Module, Project, Stats, Strategy};
                    let p = Project { codepage: 1252, modules: vec![Module { name: "Module1".into(), source: src.clone(), text_offset: 0, document: false, read_only: false, private: false }], references: vec![], compat_version: false };
                    more.extend(ovba::project_entries(&p, Strategy::Literal, Some("_VBA_PROJECT_CUR"), &mut rng, &mut Stats::default()));
                    if k == 1 {
                        // metadata first, then the module, then the workbook
                        cc.meta_place = crate::enc::cfb::Place::Front;
                        cc.chain_order = crate::enc::cfb::Order::Reversed;
                    }
                    out.feat("xls_with_vba_via_layout");
                }
                let (bytes, enc) = crate::enc::xls_file(&book, &bc, &BiffExtra::default(), &cc, &more, &mut rng);
                out.feat("xls_workbook_via_layout");
                let cj = json!({"unit": unit, "workbook": i, "layout": format!("{:?}", cc)});
                super::c02::check_xls(&book, &bytes, &enc.cell_feats, "c13|xls", out, &cj);
                if let Some(src) = &module_src {
                    use calamine::Reader;
                    let got = guard(|| {
                        let mut wb = calamine::Xls::new(std::io::Cursor::new(bytes.clone())).ok()?;
                        let v = wb.vba_project()?.ok()?;
                        v.get_module_raw("Module1").ok().map(|b| b.to_vec())
                    });
                    match got {
                        Ok(Some(b)) if &b == src => {}
                        Ok(other) => out.fail("c13|xls|vba_module".to_string(), json!({"ctx": cj, "got_len": other.map(|b| b.len()), "input_hex": hex(&bytes)})),
                        Err(f) => out.fail(format!("c13|xls|vba|fault:{}", f.class), json!({"ctx": cj, "input_hex": hex(&bytes)})),
                    }
                }
                out.case(Some(hash_bytes(&bytes[..512.min(bytes.len())]) ^ k));
            }
        }
        // a FAT of exactly 109 + 128 sectors (the second DIFAT sector holds one entry)
        if unit == 0 {
            let mut len = 15_400_000usize;
            for _ in 0..6 {
                let entries = vec![Entry::stream("Workbook", stream_bytes(&mut rng, len, 1)), Entry::stream("Small", stream_bytes(&mut rng, 100, 2))];
                let ch = CfbChoices::default();
                let n_fat = cfb::build(&entries, &ch, &mut rng).n_fat_sectors;
                if n_fat == 237 {
                    out.feat("fat_237_sectors");
                    check_container(&entries, &ch, &mut rng, out, &json!({"unit": unit, "difat_case": "fat=237", "layout": format!("{:?}", ch)}));
                    break;
                }
                len = (len as i64 + (237 - n_fat as i64) * 128 * 512 - 20_000).max(4096) as usize;
            }
        }
        // DIFAT: > 109 FAT sectors (v3: > 7 MB); a chain of several DIFAT sectors needs > 15 MB
        if unit % 24 == 0 {
            let big = if unit % 48 == 0 { 16_000_000 } else { 7_400_000 };
            let entries = vec![Entry::stream("Workbook", stream_bytes(&mut rng, big, 1)), Entry::stream("Small", stream_bytes(&mut rng, 100, 2))];
            for k in 0..2 {
                let mut ch = CfbChoices::random(&mut rng);
                ch.v4 = false;
                ch.free_pct = 0;
                ch.difat_backwards = k == 1;
                check_container(&entries, &ch, &mut rng, out, &json!({"unit": unit, "difat_case": big, "layout": format!("{:?}", ch)}));
            }
        }
    }
}
