//! C08 — the header-row option selects the first row without altering any cell.
//! The same logical sheet is written in all four formats; for many header rows n the range read
//! under HeaderRow::Row(n) is compared with the default-option range of the same reader and with
//! the model, through sequences default -> n1 -> n2 -> default.

use crate::core::*;
use crate::enc::biff8::{self, BiffChoices, BiffExtra};
use crate::enc::cfb::CfbChoices;
use crate::enc::ods::{self, OdsChoices};
use crate::enc::xlsb::{self, XlsbChoices, XlsbExtra};
use crate::enc::xlsx::{self, XlsxChoices};
use crate::model::*;
use crate::monitor::guard;
use crate::prng::{hash_bytes, Rng};
use calamine::{Data, HeaderRow, Ods, Range, Reader, ReaderRef, Xls, Xlsb, Xlsx};
use serde_json::json;
use std::io::Cursor;

pub struct C08;

fn gen_sheet(rng: &mut Rng, max_row: u32) -> MSheet {
    let mut sh = MSheet::new("Data");
    // rows with gaps; kept within a few thousand rows of the smallest header row tried, because
    // the range under an explicit header row is dense from that row on
    let base = match rng.below(6) {
        0 => 0,
        1 => 1,
        2 => rng.range_u32(2, 40),
        3 => rng.range_u32(100, 3000),
        4 => max_row - rng.range_u32(5, 400),
        _ => rng.range_u32(0, 12),
    };
    let c0 = rng.range_u32(0, 6);
    let mut r = base;
    let mut serial = rng.below(1000);
    let n_rows = rng.usize(9);
    for _ in 0..n_rows {
        if r > max_row {
            break;
        }
        for c in 0..rng.range_u32(1, 5) {
            if rng.chance(3, 4) {
                serial += 1;
                let v = match rng.below(4) {
                    0 => Val::Num(serial as f64 + 0.5),
                    1 => Val::Str(format!("h{}", serial)),
                    2 => Val::Bool(serial % 2 == 0),
                    _ => Val::Num(-(serial as f64)),
                };
                sh.cells.insert((r, c0 + c + rng.range_u32(0, 1)), MCell::v(v));
            }
        }
        // an empty-string cell (a value, not an absent cell, where the format keeps it) next to
        // the other cells of the row
        if sh.cells.keys().any(|p| p.0 == r) && rng.chance(1, 4) {
            sh.cells.insert((r, c0 + 7), MCell::v(Val::Str(String::new())));
        }
        r += match rng.below(4) {
            0 => 1,
            1 => 2,
            2 => rng.range_u32(3, 9),
            _ => 1,
        };
    }
    sh
}

fn candidates(rng: &mut Rng, rows: &[u32], max_row: u32) -> Vec<u32> {
    let mut v = vec![u32::MAX, max_row, max_row + 1, 65_535, 65_536, 1_048_575, 1_048_576];
    if let (Some(first), Some(last)) = (rows.first().copied(), rows.last().copied()) {
        v.extend([first.saturating_sub(1), first, last, last + 1, last + 2]);
        // every gap row and every data row
        for w in rows.windows(2) {
            if w[1] > w[0] + 1 {
                v.push(w[0] + 1);
                v.push(w[1] - 1);
            }
            v.push(w[1]);
        }
        v.push(rng.range_u32(first.saturating_sub(3), last + 3));
        // rows far above the data are only tried when the dense range stays small
        if last < 4000 {
            v.push(0);
            v.push(first / 2);
        }
    } else {
        v.extend([0, 1, 5]);
    }
    // the range under HeaderRow::Row(n) is dense from row n on: drop rows far above the data
    if let Some(first) = rows.first().copied() {
        v.retain(|n| n.saturating_add(4000) >= first);
    }
    v.sort();
    v.dedup();
    v
}

struct Obs {
    start: Option<(u32, u32)>,
    end: Option<(u32, u32)>,
    used: Vec<((u32, u32), Data)>,
}

fn observe(r: &Range<Data>) -> Obs {
    let s = r.start();
    Obs {
        start: s,
        end: r.end(),
        used: r.used_cells().map(|(i, j, v)| ((s.unwrap().0 + i as u32, s.unwrap().1 + j as u32), v.clone())).collect(),
    }
}

/// the checks of the statement for one header row n, given the default-option observation
fn verify(n: u32, got: &Obs, def: &Obs) -> Option<String> {
    let below: Vec<&((u32, u32), Data)> = def.used.iter().filter(|c| c.0 .0 >= n).collect();
    if below.is_empty() {
        if got.start.is_some() {
            return Some("not_empty_without_data_at_or_below".into());
        }
        return None;
    }
    match got.start {
        None => return Some("empty_although_data_at_or_below".into()),
        Some(s) if s.0 != n => return Some("does_not_start_at_header_row".into()),
        _ => {}
    }
    // same values at the same absolute positions; nothing else
    if got.used.len() != below.len() || got.used.iter().zip(below.iter()).any(|(a, b)| a != *b) {
        let missing = below.iter().find(|b| !got.used.iter().any(|a| a == **b));
        return Some(if missing.is_some() { "cell_missing_or_changed".into() } else { "extra_or_foreign_value".into() });
    }
    None
}

macro_rules! run_format {
    ($name:expr, $ty:ty, $bytes:expr, $use_ref:expr, $rows:expr, $max_row:expr, $rng:expr, $out:expr, $ctx:expr) => {{
        let fmt: &str = $name;
        let bytes: &Vec<u8> = &$bytes;
        let fail = |out: &mut UnitResult, class: String, d: serde_json::Value| out.fail(class, json!({"ctx": $ctx, "detail": d, "input_hex": hex(bytes)}));
        match guard(|| <$ty>::new(Cursor::new(bytes.clone()))) {
            Ok(Ok(mut wb)) => {
                let def = match guard(|| wb.worksheet_range("Data")) {
                    Ok(Ok(r)) => observe(&r),
                    Ok(Err(e)) => {
                        fail($out, format!("c08|{}|default_read_error|{}", fmt, super::c01::err_variant(&e)), json!(format!("{:?}", e)));
                        return;
                    }
                    Err(f) => {
                        fail($out, format!("c08|{}|default_read|fault:{}", fmt, f.class), json!(f.detail));
                        return;
                    }
                };
                // default option: the range starts at the first row with a non-empty cell
                if def.start.map(|s| s.0) != $rows.first().copied() {
                    fail($out, format!("c08|{}|default_start", fmt), json!({"got": format!("{:?}", def.start), "first_row": $rows.first()}));
                    return;
                }
                let cands = candidates($rng, &$rows, $max_row);
                let mut order = cands.clone();
                $rng.shuffle(&mut order);
                for (k, n) in order.iter().enumerate() {
                    $out.feat(&format!("n:{}", if $rows.is_empty() { "empty_sheet" } else if *n < $rows[0] { "before_data" } else if *n > *$rows.last().unwrap() { "after_data" } else if $rows.contains(n) { "on_data_row" } else { "in_gap" }));
                    wb.with_header_row(HeaderRow::Row(*n));
                    let got = match guard(|| wb.worksheet_range("Data")) {
                        Ok(Ok(r)) => observe(&r),
                        Ok(Err(e)) => {
                            fail($out, format!("c08|{}|read_error|{}", fmt, super::c01::err_variant(&e)), json!({"n": n, "err": format!("{:?}", e)}));
                            return;
                        }
                        Err(f) => {
                            fail($out, format!("c08|{}|fault:{}", fmt, f.class), json!({"n": n}));
                            return;
                        }
                    };
                    $out.sum("header_rows_checked", 1);
                    if let Some(sym) = verify(*n, &got, &def) {
                        fail($out, format!("c08|{}|{}", fmt, sym), json!({"n": n, "got_start": format!("{:?}", got.start), "got_end": format!("{:?}", got.end), "default_start": format!("{:?}", def.start), "default_end": format!("{:?}", def.end)}));
                        return;
                    }
                    if $use_ref {
                        // the borrowed path honours the option in the same way
                        let rr = guard(|| wb.worksheet_range_ref("Data").map(|r| (r.start(), r.end(), r.used_cells().count())));
                        match rr {
                            Ok(Ok((s, e, u))) if s == got.start && e == got.end && u == got.used.len() => {}
                            Ok(other) => {
                                fail($out, format!("c08|{}|range_ref_differs", fmt), json!({"n": n, "got": format!("{:?}", other.map_err(|e| format!("{:?}", e)))}));
                                return;
                            }
                            Err(f) => {
                                fail($out, format!("c08|{}|range_ref|fault:{}", fmt, f.class), json!({"n": n}));
                                return;
                            }
                        }
                    }
                    // changing the option back restores the default result
                    if k % 3 == 2 {
                        wb.with_header_row(HeaderRow::FirstNonEmptyRow);
                        match guard(|| wb.worksheet_range("Data")) {
                            Ok(Ok(r)) => {
                                let o = observe(&r);
                                if o.start != def.start || o.end != def.end || o.used != def.used {
                                    fail($out, format!("c08|{}|default_not_restored", fmt), json!({"after_n": n}));
                                    return;
                                }
                                $out.feat("option_changed_back");
                            }
                            _ => {
                                fail($out, format!("c08|{}|default_not_restored", fmt), json!({"after_n": n}));
                                return;
                            }
                        }
                    }
                }
            }
            Ok(Err(e)) => fail($out, format!("c08|{}|open_error|{}", fmt, super::c01::err_variant(&e)), json!(format!("{:?}", e))),
            Err(f) => fail($out, format!("c08|{}|open|fault:{}", fmt, f.class), json!(f.detail)),
        }
    }};
}

fn one(rng: &mut Rng, out: &mut UnitResult, fmt: &str, ctxj: serde_json::Value) {
    let max_row = if fmt == "xls" { 65_535 } else { 1_048_575 };
    let mut book = MBook { xfs: crate::gen::basic_xfs(), ..Default::default() };
    let sh = gen_sheet(rng, max_row);
    let exp_rows: Vec<u32> = {
        let mut v: Vec<u32> = sh.cells.keys().map(|p| p.0).collect();
        v.dedup();
        v
    };
    book.sheets.push(sh);
    out.feat(&format!("fmt:{}", fmt));
    match fmt {
        "xlsx" => {
            let mut ch = XlsxChoices::random(rng);
            ch.rows_shuffled = rng.chance(1, 3);
            let enc = xlsx::encode(&book, &ch, rng);
            out.feat_n("xlsx:rows_out_of_order", *enc.counts.get("rows_out_of_order").unwrap_or(&0));
            let b = enc.bytes;
            out.case(Some(hash_bytes(&b)));
            run_format!("xlsx", Xlsx<_>, b, true, exp_rows, max_row, rng, out, ctxj);
        }
        "xlsb" => {
            let mut ch = XlsbChoices::random(rng);
            ch.big_noise = false;
            ch.rows_shuffled = rng.chance(1, 3);
            let enc = xlsb::encode(&book, &ch, &XlsbExtra::default(), rng);
            out.feat_n("xlsb:rows_out_of_order", *enc.counts.get("rows_out_of_order").unwrap_or(&0));
            let b = enc.bytes;
            out.case(Some(hash_bytes(&b)));
            run_format!("xlsb", Xlsb<_>, b, true, exp_rows, max_row, rng, out, ctxj);
        }
        "xls" => {
            let (b, _) = crate::enc::xls_file(&book, &BiffChoices::random(rng), &BiffExtra::default(), &CfbChoices::default(), &[], rng);
            out.case(Some(hash_bytes(&b)));
            run_format!("xls", Xls<_>, b, false, exp_rows, max_row, rng, out, ctxj);
        }
        _ => {
            let b = ods::encode(&book, &OdsChoices::random(rng), rng).bytes;
            out.case(Some(hash_bytes(&b)));
            run_format!("ods", Ods<_>, b, false, exp_rows, max_row, rng, out, ctxj);
        }
    }
    let _ = biff8::MAX_REC;
}

/// the four ReaderRef-less readers need a common shape for the macro
trait NoRef {
    fn worksheet_range_ref(&mut self, _: &str) -> Result<Range<Data>, String> {
        Err("n/a".into())
    }
}
impl<RS: std::io::Read + std::io::Seek> NoRef for Xls<RS> {}
impl<RS: std::io::Read + std::io::Seek> NoRef for Ods<RS> {}

impl Prop for C08 {
    fn id(&self) -> &'static str {
        "C08"
    }
    fn rule(&self) -> String {
        "random sheets with gaps between data rows (data starting at row 0, 1, a few dozen, a few thousand, or near the format's last row) written in all four formats; for every candidate header row n (first-1, first, every data row, both ends of every gap, last, last+1, 65535/65536, 1048575/1048576, u32::MAX, 0 and first/2 when the dense range stays small, one random) in random order: no panic, the range starts exactly at n iff a non-empty cell exists at or below n (else it is empty), the used cells are exactly the default-option cells of rows >= n with equal values, worksheet_range_ref (xlsx/xlsb) agrees, and switching back to the default option restores the default result. Distinct by hash of the file.".into()
    }
    fn assumptions(&self) -> Vec<String> {
        vec![
            "trusted base: the four reference encoders".into(),
            "header rows far above the data are only tried when the dense range stays below a few thousand rows".into(),
        ]
    }
    fn units(&self, tier: Tier) -> u64 {
        tier.pick(16, 160)
    }
    fn mandatory(&self, _t: Tier) -> Vec<String> {
        ["fmt:xlsx", "fmt:xlsb", "fmt:xls", "fmt:ods", "n:before_data", "n:after_data", "n:on_data_row", "n:in_gap", "n:empty_sheet", "option_changed_back", "xlsx:rows_out_of_order", "xlsb:rows_out_of_order"].iter().map(|s| s.to_string()).collect()
    }
    fn run_unit(&self, ctx: &Ctx, unit: u64, out: &mut UnitResult) {
        let mut rng = Rng::derive(ctx.seed, "c08", unit);
        for i in 0..ctx.tier.pick(80, 400) {
            let fmt = ["xlsx", "xlsb", "xls", "ods"][(i % 4) as usize];
            let cj = json!({"unit": unit, "case": i, "format": fmt});
            if out.samples.is_empty() {
                out.sample(cj.clone());
            }
            one(&mut rng, out, fmt, cj);
        }
    }
}
