//! C05 — Range stays a consistent rectangle under every operation history.
//! History + executable model: a BTreeMap of non-default cells plus bounds; invariants I1..I7 are
//! evaluated through the public API after every operation (quiescent-point check).

use crate::core::*;
use crate::monitor::guard;
use crate::prng::{mix, Rng};
use calamine::{Cell, CellType, Data, Range};
use serde_json::json;
use std::collections::BTreeMap;

pub struct C05;

trait Val: CellType + std::fmt::Debug + std::fmt::Display {
    fn make(k: u64) -> Self;
    const NAME: &'static str;
}
impl Val for Data {
    fn make(k: u64) -> Self {
        match k % 6 {
            // values that are not the default (Empty) although they look empty
            0 if k % 5 == 0 => Data::Int(0),
            1 if k % 5 == 1 => Data::Float(0.0),
            2 if k % 4 == 2 => Data::String(String::new()),
            0 => Data::Int(k as i64 + 1),
            1 => Data::Float(k as f64 + 0.5),
            2 => Data::String(format!("s{}", k)),
            3 => Data::Bool(k % 12 == 3),
            4 => Data::DateTimeIso(format!("2020-01-01T00:00:{:02}", k % 60)),
            _ => Data::Error(calamine::CellErrorType::NA),
        }
    }
    const NAME: &'static str = "Data";
}
impl Val for String {
    fn make(k: u64) -> Self {
        format!("v{}", k)
    }
    const NAME: &'static str = "String";
}
impl Val for usize {
    fn make(k: u64) -> Self {
        k as usize + 1
    }
    const NAME: &'static str = "usize";
}

#[derive(Clone, Debug)]
struct Model<T> {
    empty: bool,
    start: (u32, u32),
    end: (u32, u32),
    cells: BTreeMap<(u32, u32), T>,
}

impl<T: Val> Model<T> {
    fn empty() -> Self {
        Model {
            empty: true,
            start: (0, 0),
            end: (0, 0),
            cells: BTreeMap::new(),
        }
    }
    fn h(&self) -> usize {
        if self.empty {
            0
        } else {
            (self.end.0 - self.start.0 + 1) as usize
        }
    }
    fn w(&self) -> usize {
        if self.empty {
            0
        } else {
            (self.end.1 - self.start.1 + 1) as usize
        }
    }
    fn at(&self, p: (u32, u32)) -> T {
        self.cells.get(&p).cloned().unwrap_or_default()
    }
    fn contains(&self, p: (u32, u32)) -> bool {
        !self.empty
            && p.0 >= self.start.0
            && p.0 <= self.end.0
            && p.1 >= self.start.1
            && p.1 <= self.end.1
    }
}

#[derive(Clone, Debug)]
enum Op<T> {
    New((u32, u32), (u32, u32)),
    Empty,
    FromSparse(Vec<((u32, u32), T)>),
    Set((u32, u32), T),
    Sub((u32, u32), (u32, u32), bool),
}

fn op_name<T>(op: &Op<T>, m: &Model<impl Val>) -> String {
    match op {
        Op::New(..) => "new".into(),
        Op::Empty => "empty".into(),
        Op::FromSparse(c) => {
            if c.is_empty() {
                "from_sparse:none".into()
            } else {
                "from_sparse".into()
            }
        }
        Op::Set(p, _) => {
            if m.empty {
                "set_value:on_empty".into()
            } else {
                match (p.0 > m.end.0, p.1 > m.end.1) {
                    (false, false) => "set_value:inside",
                    (true, false) => "set_value:down",
                    (false, true) => "set_value:right",
                    (true, true) => "set_value:both",
                }
                .into()
            }
        }
        Op::Sub(s, e, _) => {
            if m.empty {
                "range:from_empty".into()
            } else {
                let disjoint = e.0 < m.start.0 || s.0 > m.end.0 || e.1 < m.start.1 || s.1 > m.end.1;
                let inside = m.contains(*s) && m.contains(*e);
                let contains = s.0 <= m.start.0 && s.1 <= m.start.1 && e.0 >= m.end.0 && e.1 >= m.end.1;
                if disjoint {
                    "range:disjoint"
                } else if inside {
                    "range:inside"
                } else if contains {
                    "range:contains"
                } else {
                    "range:partial"
                }
                .into()
            }
        }
    }
}

/// evaluates invariants I1..I7 through the public API; returns the first symptom found
fn check<T: Val>(r: &Range<T>, m: &Model<T>) -> Option<String> {
    let d = T::default();
    // I1 bounds / emptiness
    if r.is_empty() != m.empty {
        return Some("is_empty".into());
    }
    let (ms, me) = if m.empty {
        (None, None)
    } else {
        (Some(m.start), Some(m.end))
    };
    if r.start() != ms || r.end() != me {
        return Some("bounds".into());
    }
    let (h, w) = (m.h(), m.w());
    if r.height() != h || r.width() != w || r.get_size() != (h, w) {
        return Some("size".into());
    }
    // I2 rows
    let rows: Vec<&[T]> = r.rows().collect();
    if rows.len() != h || r.rows().len() != h {
        return Some("rows_count".into());
    }
    for (i, row) in rows.iter().enumerate() {
        if row.len() != w {
            return Some("row_len".into());
        }
        for (j, v) in row.iter().enumerate() {
            if *v != m.at((m.start.0 + i as u32, m.start.1 + j as u32)) {
                return Some("cell_value".into());
            }
        }
    }
    let back: Vec<&[T]> = r.rows().rev().collect();
    if back.len() != h || back.iter().rev().zip(rows.iter()).any(|(a, b)| a != b) {
        return Some("rows_rev".into());
    }
    // I3 cells(): row-major, relative coordinates
    let cells: Vec<(usize, usize, &T)> = r.cells().collect();
    if cells.len() != h * w || r.cells().len() != h * w {
        return Some("cells_count".into());
    }
    for (k, (i, j, v)) in cells.iter().enumerate() {
        if w == 0 || *i != k / w || *j != k % w {
            return Some("cells_order".into());
        }
        if **v != m.at((m.start.0 + *i as u32, m.start.1 + *j as u32)) {
            return Some("cells_value".into());
        }
    }
    let cback: Vec<(usize, usize, &T)> = r.cells().rev().collect();
    if cback.len() != cells.len() || cback.iter().rev().zip(cells.iter()).any(|(a, b)| a != b) {
        return Some("cells_rev".into());
    }
    // I4 used_cells = the non-default ones, in order
    let used: Vec<(usize, usize, &T)> = r.used_cells().collect();
    let expect_used: Vec<(usize, usize, &T)> = cells.iter().filter(|c| *c.2 != d).cloned().collect();
    if used != expect_used {
        return Some("used_cells".into());
    }
    let uback: Vec<(usize, usize, &T)> = r.used_cells().rev().collect();
    if uback.len() != used.len() || uback.iter().rev().zip(used.iter()).any(|(a, b)| a != b) {
        return Some("used_cells_rev".into());
    }
    let (lo, hi) = r.used_cells().size_hint();
    if lo > used.len() || hi.map_or(false, |x| x < used.len()) {
        return Some("used_size_hint".into());
    }
    // I5 get / get_value / Index agree
    for i in 0..h {
        for j in 0..w {
            let abs = (m.start.0 + i as u32, m.start.1 + j as u32);
            let want = m.at(abs);
            if r.get((i, j)) != Some(&want) {
                return Some("get".into());
            }
            if r.get_value(abs) != Some(&want) {
                return Some("get_value".into());
            }
            if r[(i, j)] != want {
                return Some("index".into());
            }
        }
        if r[i].len() != w || r[i] != *rows[i] {
            return Some("index_row".into());
        }
    }
    // I6 outside positions
    if r.get((h, 0)).is_some() || r.get((0, w)).is_some() {
        return Some("get_outside".into());
    }
    let mut outside = vec![];
    if !m.empty {
        if m.start.0 > 0 {
            outside.push((m.start.0 - 1, m.start.1));
        }
        if m.start.1 > 0 {
            outside.push((m.start.0, m.start.1 - 1));
        }
        if m.end.0 < u32::MAX {
            outside.push((m.end.0 + 1, m.end.1));
        }
        if m.end.1 < u32::MAX {
            outside.push((m.end.0, m.end.1 + 1));
        }
    } else {
        outside.push((0, 0));
        outside.push((3, 7));
    }
    for p in outside {
        if r.get_value(p).is_some() {
            return Some("get_value_outside".into());
        }
    }
    // I7 headers = first row rendered
    let hd = r.headers();
    match (hd, rows.first()) {
        (None, None) => {}
        (Some(hs), Some(row)) => {
            if hs.len() != row.len() || hs.iter().zip(row.iter()).any(|(a, b)| *a != b.to_string()) {
                return Some("headers".into());
            }
        }
        _ => return Some("headers".into()),
    }
    None
}

/// applies one op to (range, model); returns Err(symptom) when the API disagrees with the model
fn apply<T: Val>(cur: &mut Range<T>, m: &mut Model<T>, op: &Op<T>) -> Result<(), String> {
    match op {
        Op::New(s, e) => {
            let r = guard(|| Range::<T>::new(*s, *e)).map_err(|f| f.class)?;
            *cur = r;
            *m = Model {
                empty: false,
                start: *s,
                end: *e,
                cells: BTreeMap::new(),
            };
        }
        Op::Empty => {
            *cur = guard(Range::<T>::empty).map_err(|f| f.class)?;
            *m = Model::empty();
        }
        Op::FromSparse(cells) => {
            let v: Vec<Cell<T>> = cells.iter().map(|(p, v)| Cell::new(*p, v.clone())).collect();
            *cur = guard(|| Range::from_sparse(v)).map_err(|f| f.class)?;
            if cells.is_empty() {
                *m = Model::empty();
            } else {
                let r0 = cells.iter().map(|c| c.0 .0).min().unwrap();
                let r1 = cells.iter().map(|c| c.0 .0).max().unwrap();
                let c0 = cells.iter().map(|c| c.0 .1).min().unwrap();
                let c1 = cells.iter().map(|c| c.0 .1).max().unwrap();
                let mut mm = BTreeMap::new();
                for (p, v) in cells {
                    if *v != T::default() {
                        mm.insert(*p, v.clone());
                    }
                }
                *m = Model {
                    empty: false,
                    start: (r0, c0),
                    end: (r1, c1),
                    cells: mm,
                };
            }
        }
        Op::Set(p, v) => {
            guard(|| cur.set_value(*p, v.clone())).map_err(|f| f.class)?;
            if m.empty {
                // the statement fixes the bounding box of "the old rectangle and that position";
                // an empty range has no old rectangle: {pos} and (0,0)..pos are both accepted
                m.empty = false;
                m.end = *p;
                m.start = if cur.start() == Some((0, 0)) { (0, 0) } else { *p };
            } else {
                m.end = (m.end.0.max(p.0), m.end.1.max(p.1));
            }
            if *v != T::default() {
                m.cells.insert(*p, v.clone());
            } else {
                m.cells.remove(p);
            }
        }
        Op::Sub(s, e, adopt) => {
            let sub = guard(|| cur.range(*s, *e)).map_err(|f| f.class)?;
            let mut sm = Model {
                empty: false,
                start: *s,
                end: *e,
                cells: BTreeMap::new(),
            };
            if !m.empty {
                for (p, v) in m.cells.range((s.0, 0)..=(e.0, u32::MAX)) {
                    if p.1 >= s.1 && p.1 <= e.1 {
                        sm.cells.insert(*p, v.clone());
                    }
                }
            }
            if let Some(sym) = check(&sub, &sm) {
                return Err(format!("sub:{}", sym));
            }
            // the source must be unchanged
            if let Some(sym) = check(cur, m) {
                return Err(format!("source_changed:{}", sym));
            }
            if *adopt {
                *cur = sub;
                *m = sm;
            }
        }
    }
    match guard(|| check(cur, m)) {
        Ok(None) => Ok(()),
        Ok(Some(sym)) => Err(sym),
        Err(f) => Err(format!("read_accessor:{}", f.class)),
    }
}

fn gen_origin(rng: &mut Rng) -> (u32, u32) {
    let pick = |rng: &mut Rng| -> u32 {
        match rng.below(8) {
            0 => 0,
            1 => 1,
            2 => rng.range_u32(2, 40),
            3 => 1 << 16,
            4 => 1 << 31,
            5 => u32::MAX - 200 - rng.range_u32(0, 50),
            6 => 1_048_575 - rng.range_u32(0, 30),
            _ => rng.range_u32(0, 100_000),
        }
    };
    (pick(rng), pick(rng))
}

fn gen_history<T: Val>(rng: &mut Rng) -> Vec<Op<T>> {
    let mut ops = Vec::new();
    let mut serial = 1u64;
    let mut val = |rng: &mut Rng| -> T {
        serial += 1;
        if rng.chance(1, 8) {
            T::default()
        } else {
            T::make(serial)
        }
    };
    // shadow bounds so that generated ops satisfy the documented preconditions
    let (mut empty, mut s, mut e);
    let o = gen_origin(rng);
    match rng.below(10) {
        0 => {
            ops.push(Op::Empty);
            empty = true;
            s = (0, 0);
            e = (0, 0);
        }
        1..=4 => {
            let h = rng.range_u32(0, 11);
            let w = rng.range_u32(0, 11);
            s = o;
            e = (o.0 + h, o.1 + w);
            empty = false;
            ops.push(Op::New(s, e));
        }
        _ => {
            let n = rng.usize(14);
            let h = rng.range_u32(0, 9);
            let w = rng.range_u32(0, 9);
            let mut ps = std::collections::BTreeSet::new();
            for _ in 0..n {
                ps.insert((o.0 + rng.range_u32(0, h), o.1 + rng.range_u32(0, w)));
            }
            // sorted by row; columns within a row in arbitrary order
            let mut cells: Vec<((u32, u32), T)> = ps.into_iter().map(|p| (p, val(rng))).collect();
            let mut i = 0;
            while i < cells.len() {
                let mut j = i;
                while j < cells.len() && cells[j].0 .0 == cells[i].0 .0 {
                    j += 1;
                }
                rng.shuffle(&mut cells[i..j]);
                i = j;
            }
            if cells.is_empty() {
                empty = true;
                s = (0, 0);
                e = (0, 0);
            } else {
                empty = false;
                s = (
                    cells.iter().map(|c| c.0 .0).min().unwrap(),
                    cells.iter().map(|c| c.0 .1).min().unwrap(),
                );
                e = (
                    cells.iter().map(|c| c.0 .0).max().unwrap(),
                    cells.iter().map(|c| c.0 .1).max().unwrap(),
                );
            }
            ops.push(Op::FromSparse(cells));
        }
    }
    let n_ops = rng.usize(12);
    for _ in 0..n_ops {
        if rng.chance(3, 5) {
            // set_value at or beyond the start corner
            let (ps, pe) = if empty { ((0, 0), (0, 0)) } else { (s, e) };
            let grow_r = rng.chance(1, 3);
            let grow_c = rng.chance(1, 3);
            let r = if grow_r {
                pe.0.saturating_add(rng.range_u32(1, 6))
            } else {
                rng.range_u32(ps.0, pe.0)
            };
            let c = if grow_c {
                pe.1.saturating_add(rng.range_u32(1, 6))
            } else {
                rng.range_u32(ps.1, pe.1)
            };
            let v = val(rng);
            ops.push(Op::Set((r, c), v));
            if empty {
                // resulting bounds depend on the implementation's (accepted) choice; stop
                // generating position-dependent ops relative to unknown bounds: use (r,c) box
                empty = false;
                s = (r, c);
                e = (r, c);
                // a later set_value must be >= the actual start, which is (0,0) or (r,c): (r,c)+ is safe
            } else {
                e = (e.0.max(r), e.1.max(c));
            }
        } else {
            let (bs, be) = if empty { ((0u32, 0u32), (0u32, 0u32)) } else { (s, e) };
            let lo_r = bs.0.saturating_sub(3);
            let lo_c = bs.1.saturating_sub(3);
            let hi_r = be.0.saturating_add(3);
            let hi_c = be.1.saturating_add(3);
            let mut a = (rng.range_u32(lo_r, hi_r), rng.range_u32(lo_c, hi_c));
            let mut b = (rng.range_u32(lo_r, hi_r), rng.range_u32(lo_c, hi_c));
            if rng.chance(1, 6) {
                // disjoint rectangle
                a = (hi_r.saturating_add(2), lo_c);
                b = (hi_r.saturating_add(4), hi_c);
            }
            let ss = (a.0.min(b.0), a.1.min(b.1));
            let ee = (a.0.max(b.0), a.1.max(b.1));
            let adopt = rng.bool();
            ops.push(Op::Sub(ss, ee, adopt));
            if adopt {
                empty = false;
                s = ss;
                e = ee;
            }
        }
    }
    ops
}

fn run_history<T: Val>(ops: &[Op<T>], out: &mut UnitResult, tag: &str) {
    let mut cur: Range<T> = Range::empty();
    let mut m: Model<T> = Model::empty();
    let mut h = crate::prng::hash_str(T::NAME);
    for (i, op) in ops.iter().enumerate() {
        let name = op_name(op, &m);
        out.feat(&name);
        h = mix(h, crate::prng::hash_str(&format!("{:?}", op)));
        out.sum("operations", 1);
        if let Err(sym) = apply(&mut cur, &mut m, op) {
            let sym_class = if sym.contains('|') {
                // fault class from the panic monitor
                format!("fault:{}", sym)
            } else {
                sym
            };
            out.fail(
                format!("c05|{}|{}", name, sym_class),
                json!({"type": T::NAME, "source": tag, "step": i, "history": format!("{:?}", &ops[..=i])}),
            );
            break;
        }
    }
    out.feat(&format!("type:{}", T::NAME));
    out.case(if ops.len() >= 2 { Some(h) } else { None });
    if out.samples.is_empty() {
        out.sample(json!({"type": T::NAME, "history": format!("{:?}", ops)}));
    }
}

/// all histories of length <= 3 over a 3x3 coordinate lattice (usize cells)
fn lattice_histories(unit: u64, n_units: u64, out: &mut UnitResult) {
    let base = 5u32;
    let pts: Vec<(u32, u32)> = (0..3).flat_map(|r| (0..3).map(move |c| (base + r, base + c))).collect();
    let mut rects = vec![];
    for a in &pts {
        for b in &pts {
            if a.0 <= b.0 && a.1 <= b.1 {
                rects.push((*a, *b));
            }
        }
    }
    let sparse: Vec<Vec<((u32, u32), usize)>> = vec![
        vec![],
        vec![(pts[0], 11)],
        vec![(pts[4], 12)],
        vec![(pts[2], 13), (pts[6], 14)],
        vec![(pts[1], 15), (pts[0], 16), (pts[8], 17)],
        vec![(pts[3], 0), (pts[5], 18)],
        vec![(pts[0], 19), (pts[4], 20), (pts[8], 21)],
        vec![(pts[2], 22), (pts[1], 23), (pts[7], 0)],
    ];
    let mut firsts: Vec<Op<usize>> = vec![Op::Empty];
    firsts.extend(rects.iter().map(|r| Op::New(r.0, r.1)));
    firsts.extend(sparse.into_iter().map(Op::FromSparse));
    let mut seconds: Vec<Op<usize>> = vec![];
    for (i, p) in pts.iter().enumerate() {
        seconds.push(Op::Set(*p, 100 + i));
    }
    for r in &rects {
        seconds.push(Op::Sub(r.0, r.1, true));
    }
    let mut idx = 0u64;
    for f in &firsts {
        for s2 in std::iter::once(None).chain(seconds.iter().map(Some)) {
            for s3 in std::iter::once(None).chain(seconds.iter().map(Some)) {
                if s2.is_none() && s3.is_some() {
                    continue;
                }
                idx += 1;
                if idx % n_units != unit {
                    continue;
                }
                let mut ops = vec![f.clone()];
                ops.extend(s2.cloned());
                ops.extend(s3.cloned());
                // respect the set_value precondition (position >= current start) by simulation
                if !precondition_ok(&ops) {
                    continue;
                }
                out.feat("lattice_history");
                run_history(&ops, out, "lattice");
            }
        }
    }
}

fn precondition_ok(ops: &[Op<usize>]) -> bool {
    let mut empty = true;
    let mut s = (0u32, 0u32);
    for op in ops {
        match op {
            Op::Empty => {
                empty = true;
                s = (0, 0)
            }
            Op::New(a, _) => {
                empty = false;
                s = *a
            }
            Op::FromSparse(c) => {
                if c.is_empty() {
                    empty = true;
                    s = (0, 0)
                } else {
                    empty = false;
                    s = (
                        c.iter().map(|x| x.0 .0).min().unwrap(),
                        c.iter().map(|x| x.0 .1).min().unwrap(),
                    );
                    // documented: cells sorted by row
                    if c.windows(2).any(|w| w[0].0 .0 > w[1].0 .0) {
                        return false;
                    }
                }
            }
            Op::Set(p, _) => {
                if empty {
                    // after a set on an empty range the start is (0,0) or p: later sets in this
                    // enumeration are all >= (5,5) > (0,0); require >= p as well
                    empty = false;
                    s = *p;
                } else if p.0 < s.0 || p.1 < s.1 {
                    return false;
                }
            }
            Op::Sub(a, _, adopt) => {
                if *adopt {
                    empty = false;
                    s = *a
                }
            }
        }
    }
    true
}

const LATTICE_UNITS: u64 = 16;

impl Prop for C05 {
    fn id(&self) -> &'static str {
        "C05"
    }
    fn rule(&self) -> String {
        "random operation histories (constructor, then 0..11 set_value / range ops respecting the documented preconditions) over T in {Data, String, usize} with origins anywhere in u32, plus ALL histories of length <= 3 over a 3x3 coordinate lattice; after every op the Range is compared with a BTreeMap model through rows/cells/used_cells/get/get_value/Index/headers. A case is non-trivial when its history has >= 2 operations; distinct = distinct hash of (type, operation list).".into()
    }
    fn assumptions(&self) -> Vec<String> {
        vec![
            "Range::new with start > end and set_value above/left of start are documented to panic and are not generated".into(),
            "set_value on an empty range may yield either {pos} or (0,0)..pos (the statement does not fix it)".into(),
            "from_sparse is only given cells with distinct positions, sorted by row".into(),
        ]
    }
    fn units(&self, tier: Tier) -> u64 {
        LATTICE_UNITS + tier.pick(16, 400)
    }
    fn exhaustive(&self, _t: Tier) -> Option<String> {
        Some("all operation histories of length <= 3 over a 3x3 coordinate lattice (45 constructors x 45 follow-up ops, usize cells)".into())
    }
    fn mandatory(&self, _t: Tier) -> Vec<String> {
        [
            "new", "empty", "from_sparse", "set_value:inside", "set_value:down", "set_value:right",
            "set_value:both", "set_value:on_empty", "range:disjoint", "range:inside",
            "range:contains", "range:partial", "range:from_empty", "type:Data", "type:String",
            "type:usize", "lattice_history",
        ]
        .iter()
        .map(|s| s.to_string())
        .collect()
    }
    fn run_unit(&self, ctx: &Ctx, unit: u64, out: &mut UnitResult) {
        if unit < LATTICE_UNITS {
            lattice_histories(unit, LATTICE_UNITS, out);
            return;
        }
        let n = ctx.tier.pick(1250, 5000);
        for i in 0..n {
            let mut rng = Rng::derive(ctx.seed, "c05", unit * 1_000_000 + i);
            match rng.below(3) {
                0 => run_history::<Data>(&gen_history(&mut rng), out, "random"),
                1 => run_history::<String>(&gen_history(&mut rng), out, "random"),
                _ => run_history::<usize>(&gen_history(&mut rng), out, "random"),
            }
        }
    }
}
