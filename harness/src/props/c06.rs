//! C06 — malformed or hostile files yield an error, never a panic, hang or memory blow-up.
//! Structure-aware fault enumeration over the repository fixtures and one generated
//! feature-complete workbook per format; every API of the property's observe_at list is driven on
//! every case under the panic / overflow / allocation / CPU monitors. Worker deaths (allocation
//! aborts, watchdog kills, stack overflows) are attributed to the announced case by the
//! supervisor, which then resumes after it.

use crate::core::*;
use crate::enc::biff8::{BiffChoices, BiffExtra, SplitPlan};
use crate::enc::cfb::CfbChoices;
use crate::enc::ods::OdsChoices;
use crate::enc::ovba::{self, Module, Project, RefKind, Reference, Stats, Strategy};
use crate::enc::xlsb::{XlsbChoices, XlsbExtra};
use crate::enc::xlsx::XlsxChoices;
use crate::faults;
use crate::gen;
use crate::model::*;
use crate::monitor::{self, guard, Fault};
use crate::prng::{hash_bytes, Rng};
use crate::supervisor::marker;
use calamine::{open_workbook_auto_from_rs, HeaderRow, Ods, Reader, ReaderRef, Sheets, Xls, Xlsb, Xlsx};
use serde_json::json;
use std::io::Cursor;

pub struct C06;

/// every base is split into this many units (case index modulo SHARDS)
const SHARDS: u64 = 4;

type Cur = Cursor<Vec<u8>>;

#[derive(Clone, Copy, PartialEq, Eq, Debug)]
enum Fmt {
    Xls,
    Xlsx,
    Xlsb,
    Ods,
}

struct Base {
    name: String,
    fmt: Fmt,
    bytes: Vec<u8>,
}

fn fixtures(max_len: usize) -> Vec<Base> {
    let mut v = vec![];
    let mut names: Vec<_> = std::fs::read_dir("/repo/tests").map(|d| d.filter_map(|e| e.ok()).map(|e| e.path()).collect::<Vec<_>>()).unwrap_or_default();
    names.sort();
    for p in names {
        let fmt = match p.extension().and_then(|e| e.to_str()) {
            Some("xls") => Fmt::Xls,
            Some("xlsx") | Some("xlsm") => Fmt::Xlsx,
            Some("xlsb") => Fmt::Xlsb,
            Some("ods") => Fmt::Ods,
            _ => continue,
        };
        if let Ok(b) = std::fs::read(&p) {
            if !b.is_empty() && b.len() <= max_len {
                v.push(Base { name: p.file_name().unwrap().to_string_lossy().into_owned(), fmt, bytes: b });
            }
        }
    }
    v
}

/// one generated feature-complete workbook per format (with VBA project, merges, tables, names,
/// formulas, every cell kind, an SST that needs several CONTINUE records)
fn generated() -> Vec<Base> {
    let mut rng = Rng::new(0xC06);
    let mut book = gen::gen_book(&mut rng, &gen::XLS_LIMITS, &gen::GenOpts { empty_strings: false, max_sheets: 2, max_cells: 40, formulas: true, styles: true });
    book.sheets.truncate(2);
    for (i, sh) in book.sheets.iter_mut().enumerate() {
        sh.name = format!("Gen{}", i + 1);
        let cells: Vec<(Pos, MCell)> = sh.cells.iter().map(|(p, c)| ((p.0 % 50, p.1 % 20), c.clone())).collect();
        sh.cells = cells.into_iter().collect();
        sh.cells.insert((1, 1), MCell { val: Val::Num(44_000.5), xf: Some(2), formula: None });
        sh.cells.insert((2, 1), MCell { val: Val::Str("formula string".into()), xf: None, formula: Some("A1&\"x\"".into()) });
        sh.cells.insert((3, 1), MCell::v(Val::Err(ErrKind::Div0)));
        sh.cells.insert((3, 2), MCell::v(Val::Bool(true)));
        for k in 0..6 {
            sh.cells.insert((4, 3 + k), MCell::v(Val::Num(k as f64 + 1.0)));
        }
        sh.merges.push(((5, 0), (6, 2)));
        sh.merges.push(((8, 1), (8, 3)));
    }
    // long strings: the xls SST spans several CONTINUE records
    for k in 0..6u32 {
        book.sheets[0].cells.insert((20 + k, 0), MCell::v(Val::Str(format!("{}{}", k, "long é text ".repeat(400)))));
    }
    book.defined_names.push(("Name1".into(), "Gen1!$A$1".into()));
    let p = Project {
        codepage: 1252,
        modules: vec![
            Module { name: "Module1".into(), source: "Sub a()\r\n  MsgBox \"hi\"\r\nEnd Sub\r\n".repeat(200).into_bytes(), text_offset: 5, document: false, read_only: false, private: false },
            Module { name: "ThisWorkbook".into(), source: b"Option Explicit\r\n".to_vec(), text_offset: 0, document: true, read_only: true, private: true },
        ],
        references: vec![Reference { name: "stdole".into(), kind: RefKind::Registered }, Reference { name: "Other".into(), kind: RefKind::Project }, Reference { name: "Ctl".into(), kind: RefKind::OriginalControl }],
        compat_version: true,
    };
    let mut st = Stats::default();
    let vba_bin = crate::enc::cfb::build(&ovba::project_entries(&p, Strategy::Greedy, None, &mut rng, &mut st), &CfbChoices::default(), &mut rng).bytes;
    let mut v = vec![];
    {
        let mut xbook = book.clone();
        xbook.sheets[0].tables.push(MTable { name: "T1".into(), columns: vec!["a".into(), "b".into()], rect: ((0, 0), (4, 1)), header_rows: None, totals_rows: Some(1) });
        xbook.sheets[0].tables.push(MTable { name: "T2Ins".into(), columns: vec!["c".into(), "d".into()], rect: ((10, 3), (12, 4)), header_rows: None, totals_rows: None });
        xbook.sheets[0].shared.push(MShared { si: 0, rect: ((30, 5), (33, 6)), master: (30, 5), text: "A1+$B$2".into() });
        for r in 30..34 {
            for c in 5..7 {
                xbook.sheets[0].cells.insert((r, c), MCell { val: Val::Num(1.0), xf: None, formula: Some("x".into()) });
            }
        }
        // a second shared group whose master is its last row; that row is then moved to the front
        // of sheetData, so that the members are read after the master and lie above it (their
        // relative references move towards, and past, row 1)
        xbook.sheets[0].shared.push(MShared { si: 1, rect: ((40, 5), (43, 5)), master: (43, 5), text: "A2+B1".into() });
        for r in 40..44 {
            xbook.sheets[0].cells.insert((r, 5), MCell { val: Val::Num(2.0), xf: None, formula: Some("x".into()) });
        }
        let mut ch = XlsxChoices::default();
        ch.forms = crate::enc::xlsx::ALL_FORMS.to_vec();
        ch.extras = true;
        ch.vba = Some(vba_bin.clone());
        let mut bytes = crate::enc::xlsx::encode(&xbook, &ch, &mut rng).bytes;
        if let Some(mut parts) = crate::enc::zipw::read_all(&bytes) {
            if let Some(p) = parts.iter_mut().find(|p| p.name.ends_with("worksheets/sheet1.xml")) {
                let x = String::from_utf8_lossy(&p.data).into_owned();
                if let (Some(a), Some(sd)) = (x.find("<row r=\"44\""), x.find("<sheetData>")) {
                    if let Some(len) = x[a..].find("</row>") {
                        let row = x[a..a + len + 6].to_string();
                        let mut y = String::with_capacity(x.len());
                        y.push_str(&x[..sd + 11]);
                        y.push_str(&row);
                        y.push_str(&x[sd + 11..a]);
                        y.push_str(&x[a + len + 6..]);
                        p.data = y.into_bytes();
                    }
                }
            }
            bytes = crate::enc::zipw::build(&parts);
        }
        v.push(Base { name: "generated.xlsm".into(), fmt: Fmt::Xlsx, bytes });
    }
    {
        let mut ch = XlsbChoices::default();
        ch.noise_pct = 10;
        ch.rich_sst = true;
        ch.vba = Some(vba_bin);
        let extra = XlsbExtra { rgce: Default::default(), names: vec![("Name1".into(), vec![0x3A, 0, 0, 1, 0, 0, 0, 2, 0])], xtis: vec![(0, 0)] };
        v.push(Base { name: "generated.xlsb".into(), fmt: Fmt::Xlsb, bytes: crate::enc::xlsb::encode(&book, &ch, &extra, &mut rng).bytes });
    }
    {
        let mut bc = BiffChoices::default();
        bc.sst_decor = true;
        bc.sst_plan = SplitPlan { random_pct: 1, ..Default::default() };
        let extra = BiffExtra { rgce: Default::default(), names: vec![("Name1".into(), vec![0x3A, 0, 0, 1, 0, 2, 0])], xtis: vec![(0, 0, 0)] };
        let more = ovba::project_entries(&p, Strategy::Greedy, Some("_VBA_PROJECT_CUR"), &mut rng, &mut st);
        let (bytes, _) = crate::enc::xls_file(&book, &bc, &extra, &CfbChoices::default(), &more, &mut rng);
        v.push(Base { name: "generated.xls".into(), fmt: Fmt::Xls, bytes });
    }
    {
        let mut obook = book.clone();
        for sh in obook.sheets.iter_mut() {
            sh.cells.retain(|_, c| !matches!(c.val, Val::Err(_)));
            for c in sh.cells.values_mut() {
                if let Some(f) = &c.formula {
                    c.formula = Some(format!("of:={}", f));
                }
            }
        }
        obook.defined_names = vec![("Name1".into(), "$Gen1.$A$1".into())];
        // a sheet that starts with repeated empty rows
        let mut lead = MSheet::new("Lead");
        lead.cells.insert((3, 0), MCell::v(Val::Num(7.0)));
        lead.cells.insert((3, 2), MCell::v(Val::Str("after leading rows".into())));
        lead.cells.insert((6, 1), MCell::v(Val::Num(8.0)));
        obook.sheets.push(lead);
        v.push(Base { name: "generated.ods".into(), fmt: Fmt::Ods, bytes: crate::enc::ods::encode(&obook, &OdsChoices::default(), &mut rng).bytes });
    }
    v
}

/// tiny stored containers for the interpreter / sanitizer replays (Miri is ~4 orders of magnitude
/// slower than native code and cannot afford inflate)
fn tiny_bases() -> Vec<Base> {
    let mut rng = Rng::new(0xC06A);
    let mut sh = MSheet::new("S1");
    sh.cells.insert((0, 0), MCell::v(Val::Num(1.5)));
    sh.cells.insert((0, 1), MCell::v(Val::Str("h\u{e9}llo \u{4e16}".into())));
    sh.cells.insert((1, 0), MCell::v(Val::Bool(true)));
    sh.cells.insert((1, 1), MCell { val: Val::Num(2.5), xf: Some(2), formula: Some("A1+1".into()) });
    sh.cells.insert((2, 0), MCell { val: Val::Str("fs".into()), xf: None, formula: Some("B1&\"x\"".into()) });
    sh.merges.push(((3, 0), (3, 1)));
    let mut book = MBook { sheets: vec![sh], xfs: gen::basic_xfs(), ..Default::default() };
    book.defined_names.push(("N1".into(), "S1!$A$1".into()));
    let p = Project {
        codepage: 1252,
        modules: vec![Module { name: "M".into(), source: b"Sub a()\r\nEnd Sub\r\nSub a()\r\nEnd Sub\r\n".to_vec(), text_offset: 0, document: false, read_only: false, private: false }],
        references: vec![Reference { name: "stdole".into(), kind: RefKind::Registered }],
        compat_version: false,
    };
    let mut st = Stats::default();
    let vba_bin = crate::enc::cfb::build(&ovba::project_entries(&p, Strategy::Greedy, None, &mut rng, &mut st), &CfbChoices::default(), &mut rng).bytes;
    let mut v = vec![];
    {
        let extra = BiffExtra { rgce: Default::default(), names: vec![("N1".into(), vec![0x3A, 0, 0, 0, 0, 0, 0])], xtis: vec![(0, 0, 0)] };
        let more = ovba::project_entries(&p, Strategy::Greedy, Some("_VBA_PROJECT_CUR"), &mut rng, &mut st);
        let (bytes, _) = crate::enc::xls_file(&book, &BiffChoices::default(), &extra, &CfbChoices::default(), &more, &mut rng);
        v.push(Base { name: "tiny.xls".into(), fmt: Fmt::Xls, bytes });
    }
    {
        let mut ch = XlsxChoices::default();
        ch.deflate_some = false;
        ch.forms = vec![crate::enc::xlsx::StrForm::SharedPlain, crate::enc::xlsx::StrForm::InlineRich];
        ch.vba = Some(vba_bin);
        v.push(Base { name: "tiny.xlsm".into(), fmt: Fmt::Xlsx, bytes: crate::enc::xlsx::encode(&book, &ch, &mut rng).bytes });
    }
    {
        let mut ch = XlsbChoices::default();
        ch.deflate = false;
        let extra = XlsbExtra { rgce: Default::default(), names: vec![("N1".into(), vec![0x3A, 0, 0, 0, 0, 0, 0, 0, 0])], xtis: vec![(0, 0)] };
        v.push(Base { name: "tiny.xlsb".into(), fmt: Fmt::Xlsb, bytes: crate::enc::xlsb::encode(&book, &ch, &extra, &mut rng).bytes });
    }
    {
        let mut obook = book.clone();
        for sh in obook.sheets.iter_mut() {
            for c in sh.cells.values_mut() {
                if let Some(f) = &c.formula {
                    c.formula = Some(format!("of:={}", f));
                }
            }
        }
        obook.defined_names = vec![("N1".into(), "$S1.$A$1".into())];
        let mut ch = OdsChoices::default();
        ch.deflate = false;
        v.push(Base { name: "tiny.ods".into(), fmt: Fmt::Ods, bytes: crate::enc::ods::encode(&obook, &ch, &mut rng).bytes });
    }
    v
}

/// In-process replay of a slice of the fault enumeration over the tiny bases: no worker
/// processes, no watchdog thread, so that it can run under Miri (and, natively, under valgrind).
/// Prints one summary line; panics / over-bound allocations found here are reported exactly like
/// in the main run, undefined behaviour is reported by the interpreter itself.
pub fn tiny_run(shard: u64, shards: u64, max_cases: u64) -> i32 {
    use std::sync::atomic::Ordering::Relaxed;
    let all = tiny_bases();
    let mut out = UnitResult::default();
    let mut ran = 0u64;
    let mut kinds = std::collections::BTreeSet::new();
    for (bi, base) in all.iter().enumerate() {
        // dry pass: count the atoms of this base
        let mut n = 0u64;
        faults::SHARDS.store(1, Relaxed);
        faults::SHARD.store(0, Relaxed);
        faults::IDX.store(0, Relaxed);
        faults::SKIP.store(u64::MAX, Relaxed);
        let mut count = |_k: String, _d: String, _b: Vec<u8>| n += 1;
        match base.fmt {
            Fmt::Xls => faults::xls_atoms(&base.bytes, 1, false, &mut count),
            _ => faults::zip_atoms(&base.bytes, bi as u64, 1, false, &mut count),
        }
        let per_base = (max_cases / all.len() as u64).max(1);
        let stride = (n / (per_base * shards)).max(1);
        // real pass: atom i runs here when it is the first of its stride block and the block is ours
        faults::SKIP.store(0, Relaxed);
        faults::SHARDS.store(stride * shards, Relaxed);
        faults::SHARD.store(stride * shard, Relaxed);
        // IDX holds the index of the atom about to be emitted
        faults::IDX.store(0, Relaxed);
        if shard == 0 {
            run_case(base, "none", "", &base.bytes, &mut out, bi as u64, 0, true);
            ran += 1;
        }
        let mut idx = 0u64;
        let mut here = 0u64;
        let mut case = |kind: String, detail: String, bytes: Vec<u8>| {
            let i = idx;
            idx += 1;
            faults::IDX.store(idx, Relaxed);
            if i % (stride * shards) != stride * shard || here >= per_base {
                return;
            }
            here += 1;
            kinds.insert(kind.split(':').take(2).collect::<Vec<_>>().join(":"));
            run_case(base, &kind, &detail, &bytes, &mut out, bi as u64, i, i % 3 == 0);
        };
        match base.fmt {
            Fmt::Xls => faults::xls_atoms(&base.bytes, 1, false, &mut case),
            _ => faults::zip_atoms(&base.bytes, bi as u64, 1, false, &mut case),
        }
        ran += here;
    }
    let mut classes = std::collections::BTreeSet::new();
    for f in &out.failures {
        if classes.insert(f.class.clone()) {
            let mut d = f.detail.clone();
            if let Some(o) = d.as_object_mut() {
                o.remove("input_hex");
            }
            println!("TINY-FAILURE class={} detail={}", f.class, d);
        }
    }
    println!(
        "TINY-RUN shard={}/{} cases={} atom_kinds={} opened={} open_errors={} failures={} kinds={:?}",
        shard,
        shards,
        ran,
        kinds.len(),
        out.features.iter().filter(|(k, _)| k.ends_with(":opened")).map(|(_, v)| *v).sum::<u64>(),
        out.features.iter().filter(|(k, _)| k.ends_with(":open_error")).map(|(_, v)| *v).sum::<u64>(),
        classes.len(),
        kinds
    );
    if classes.is_empty() {
        0
    } else {
        1
    }
}

/// writes a slice of the tiny fault enumeration as files `<n>_<fmt>__<kind>.bin` (natively; the
/// interpreter then only has to run calamine on them)
pub fn tiny_dump(dir: &str, max_cases: u64) -> i32 {
    use std::sync::atomic::Ordering::Relaxed;
    let _ = std::fs::remove_dir_all(dir);
    if std::fs::create_dir_all(dir).is_err() {
        return 2;
    }
    let all = tiny_bases();
    let mut written = 0u64;
    for (bi, base) in all.iter().enumerate() {
        let mut n = 0u64;
        faults::SHARDS.store(1, Relaxed);
        faults::SHARD.store(0, Relaxed);
        faults::IDX.store(0, Relaxed);
        faults::SKIP.store(u64::MAX, Relaxed);
        let mut count = |_k: String, _d: String, _b: Vec<u8>| n += 1;
        match base.fmt {
            Fmt::Xls => faults::xls_atoms(&base.bytes, 1, false, &mut count),
            _ => faults::zip_atoms(&base.bytes, bi as u64, 1, false, &mut count),
        }
        let per_base = (max_cases / all.len() as u64).max(1);
        let stride = (n / per_base).max(1);
        faults::SKIP.store(0, Relaxed);
        faults::SHARDS.store(stride, Relaxed);
        faults::SHARD.store(0, Relaxed);
        faults::IDX.store(0, Relaxed);
        let f = format!("{:?}", base.fmt).to_lowercase();
        let _ = std::fs::write(format!("{}/{:05}_{}__none.bin", dir, written, f), &base.bytes);
        written += 1;
        let mut idx = 0u64;
        let mut case = |kind: String, _d: String, bytes: Vec<u8>| {
            let i = idx;
            idx += 1;
            faults::IDX.store(idx, Relaxed);
            // values that address far cells make the dense range huge (the open known finding):
            // not part of the interpreter corpus
            if i % stride != 0 || ["ZZZZZZZ1", "XFD1048576", "4294967296", "1048577", "999999999", "100000000000000000000"].iter().any(|f| kind.contains(f)) {
                return;
            }
            let k: String = kind.chars().map(|c| if c.is_ascii_alphanumeric() || c == '-' || c == '.' { c } else { '_' }).take(60).collect();
            let _ = std::fs::write(format!("{}/{:05}_{}__{}.bin", dir, written, f, k), &bytes);
            written += 1;
        };
        match base.fmt {
            Fmt::Xls => faults::xls_atoms(&base.bytes, 1, false, &mut case),
            _ => faults::zip_atoms(&base.bytes, bi as u64, 1, false, &mut case),
        }
    }
    println!("TINY-DUMP dir={} files={}", dir, written);
    0
}

/// runs the files written by `tiny_dump` (those with index % shards == shard) in-process
pub fn tiny_files(dir: &str, shard: u64, shards: u64, skip: u64) -> i32 {
    let mut names: Vec<String> = std::fs::read_dir(dir).map(|d| d.filter_map(|e| e.ok()).map(|e| e.file_name().to_string_lossy().into_owned()).collect()).unwrap_or_default();
    names.sort();
    let mut out = UnitResult::default();
    let mut ran = 0u64;
    let mut seen = 0u64;
    for (i, n) in names.iter().enumerate() {
        if i as u64 % shards != shard || !n.ends_with(".bin") {
            continue;
        }
        // resuming after a run that ended early: skip the first `skip` cases of this shard
        if seen < skip {
            seen += 1;
            continue;
        }
        let fmt = match n.split('_').nth(1) {
            Some("xls") => Fmt::Xls,
            Some("xlsx") => Fmt::Xlsx,
            Some("xlsb") => Fmt::Xlsb,
            Some("ods") => Fmt::Ods,
            _ => continue,
        };
        let Ok(bytes) = std::fs::read(format!("{}/{}", dir, n)) else { continue };
        let base = Base { name: n.clone(), fmt, bytes: vec![] };
        let kind = n.split("__").nth(1).unwrap_or("?").trim_end_matches(".bin").to_string();
        println!("TINY-CASE {}", n);
        run_case(&base, &kind, "", &bytes, &mut out, 0, i as u64, i % 3 == 0);
        ran += 1;
    }
    let mut classes = std::collections::BTreeSet::new();
    for f in &out.failures {
        if classes.insert(f.class.clone()) {
            let mut d = f.detail.clone();
            if let Some(o) = d.as_object_mut() {
                o.remove("input_hex");
            }
            println!("TINY-FAILURE class={} detail={}", f.class, d);
        }
    }
    println!("TINY-RUN shard={}/{} cases={} failures={}", shard, shards, ran, classes.len());
    if classes.is_empty() {
        0
    } else {
        1
    }
}

fn bases(tier: Tier) -> Vec<Base> {
    let mut v = generated();
    v.extend(fixtures(tier.pick(1 << 20, 8 << 20)));
    v
}

struct Monitored {
    faults: Vec<Fault>,
    peak: usize,
    cpu_us: u64,
}

/// one API call under all monitors
fn mon<T>(m: &mut Monitored, bound: usize, phase: &str, f: impl FnOnce() -> T) -> Option<T> {
    monitor::phase(phase);
    let t0 = monitor::thread_cpu_us();
    let base = monitor::alloc_begin(bound);
    let r = guard(f);
    let rd = monitor::alloc_end(base);
    monitor::phase_end();
    m.cpu_us = m.cpu_us.max(monitor::thread_cpu_us() - t0);
    m.peak = m.peak.max(rd.peak);
    if let Some(site) = rd.over_site {
        let site_only = site.split("|req=").next().unwrap_or("?").to_string();
        m.faults.push(Fault { kind: "alloc".into(), class: format!("alloc|{}", site_only), detail: format!("{} in {} (bound {})", site, phase, bound) });
    }
    match r {
        Ok(v) => Some(v),
        Err(f) => {
            m.faults.push(Fault { detail: format!("{} in {}", f.detail, phase), ..f });
            None
        }
    }
}

macro_rules! drive_common {
    ($wb:ident, $m:ident, $bound:ident, $p:expr, $names:ident) => {{
        for n in &$names {
            mon(&mut $m, $bound, concat!($p, ":worksheet_range"), || $wb.worksheet_range(n).map(|r| r.get_size()).ok());
            mon(&mut $m, $bound, concat!($p, ":worksheet_formula"), || $wb.worksheet_formula(n).map(|r| r.get_size()).ok());
        }
        mon(&mut $m, $bound, concat!($p, ":worksheets"), || $wb.worksheets().len());
        mon(&mut $m, $bound, concat!($p, ":vba_project"), || {
            if let Some(Ok(v)) = $wb.vba_project() {
                let names: Vec<String> = v.get_module_names().iter().map(|s| s.to_string()).collect();
                for n in names {
                    let _ = v.get_module(&n);
                }
                let _ = v.get_references().len();
            }
        });
        mon(&mut $m, $bound, concat!($p, ":metadata"), || ($wb.sheet_names().len(), $wb.sheets_metadata().len(), $wb.defined_names().len()));
        // an explicit header row below everything, then back
        $wb.with_header_row(HeaderRow::Row(u32::MAX));
        for n in $names.iter().take(2) {
            mon(&mut $m, $bound, concat!($p, ":worksheet_range@header_max"), || $wb.worksheet_range(n).map(|r| r.get_size()).ok());
        }
        $wb.with_header_row(HeaderRow::FirstNonEmptyRow);
    }};
}

fn names_of(v: Vec<String>) -> Vec<String> {
    let mut n: Vec<String> = v.into_iter().take(5).collect();
    n.push("no such sheet".into());
    n
}

fn drive_xlsx(bytes: &[u8], m: &mut Monitored, bound: usize) -> (bool, bool) {
    let Some(r) = mon(m, bound, "xlsx:new", || Xlsx::new(Cursor::new(bytes.to_vec()))) else { return (false, false) };
    let Ok(mut wb) = r else { return (false, true) };
    let names = names_of(wb.sheet_names());
    let mut mm = std::mem::replace(m, Monitored { faults: vec![], peak: 0, cpu_us: 0 });
    drive_common!(wb, mm, bound, "xlsx", names);
    for n in &names {
        mon(&mut mm, bound, "xlsx:worksheet_range_ref", || wb.worksheet_range_ref(n).map(|r| r.get_size()).ok());
        mon(&mut mm, bound, "xlsx:worksheet_merge_cells", || wb.worksheet_merge_cells(n).map(|r| r.map(|v| v.len()).ok()));
    }
    mon(&mut mm, bound, "xlsx:worksheet_merge_cells_at", || wb.worksheet_merge_cells_at(0).map(|r| r.map(|v| v.len()).ok()));
    if mon(&mut mm, bound, "xlsx:load_merged_regions", || wb.load_merged_regions().is_ok()) == Some(true) {
        mon(&mut mm, bound, "xlsx:merged_regions", || (wb.merged_regions().len(), wb.merged_regions_by_sheet(&names[0]).len()));
    }
    if mon(&mut mm, bound, "xlsx:load_tables", || wb.load_tables().is_ok()) == Some(true) {
        let tn: Vec<String> = wb.table_names().into_iter().cloned().collect();
        for t in tn.iter().take(4) {
            mon(&mut mm, bound, "xlsx:table_by_name", || wb.table_by_name(t).map(|t| t.data().get_size()).ok());
            mon(&mut mm, bound, "xlsx:table_by_name_ref", || wb.table_by_name_ref(t).map(|t| t.data().get_size()).ok());
        }
    }
    *m = mm;
    (true, false)
}

fn drive_xlsb(bytes: &[u8], m: &mut Monitored, bound: usize) -> (bool, bool) {
    let Some(r) = mon(m, bound, "xlsb:new", || Xlsb::new(Cursor::new(bytes.to_vec()))) else { return (false, false) };
    let Ok(mut wb) = r else { return (false, true) };
    let names = names_of(wb.sheet_names());
    let mut mm = std::mem::replace(m, Monitored { faults: vec![], peak: 0, cpu_us: 0 });
    drive_common!(wb, mm, bound, "xlsb", names);
    for n in &names {
        mon(&mut mm, bound, "xlsb:worksheet_range_ref", || wb.worksheet_range_ref(n).map(|r| r.get_size()).ok());
    }
    *m = mm;
    (true, false)
}

fn drive_xls(bytes: &[u8], m: &mut Monitored, bound: usize) -> (bool, bool) {
    let Some(r) = mon(m, bound, "xls:new", || Xls::new(Cursor::new(bytes.to_vec()))) else { return (false, false) };
    let Ok(mut wb) = r else { return (false, true) };
    let names = names_of(wb.sheet_names());
    let mut mm = std::mem::replace(m, Monitored { faults: vec![], peak: 0, cpu_us: 0 });
    drive_common!(wb, mm, bound, "xls", names);
    for n in &names {
        mon(&mut mm, bound, "xls:worksheet_merge_cells", || wb.worksheet_merge_cells(n).map(|v| v.len()));
    }
    mon(&mut mm, bound, "xls:worksheet_merge_cells_at", || wb.worksheet_merge_cells_at(0).map(|v| v.len()));
    *m = mm;
    (true, false)
}

fn drive_ods(bytes: &[u8], m: &mut Monitored, bound: usize) -> (bool, bool) {
    let Some(r) = mon(m, bound, "ods:new", || Ods::new(Cursor::new(bytes.to_vec()))) else { return (false, false) };
    let Ok(mut wb) = r else { return (false, true) };
    let names = names_of(wb.sheet_names());
    let mut mm = std::mem::replace(m, Monitored { faults: vec![], peak: 0, cpu_us: 0 });
    drive_common!(wb, mm, bound, "ods", names);
    *m = mm;
    (true, false)
}

fn drive_auto(bytes: &[u8], m: &mut Monitored, bound: usize) {
    let Some(r) = mon(m, bound, "auto:open", || open_workbook_auto_from_rs(Cursor::new(bytes.to_vec()))) else { return };
    let Ok(mut wb): Result<Sheets<Cur>, _> = r else { return };
    let names = names_of(wb.sheet_names());
    let mut mm = std::mem::replace(m, Monitored { faults: vec![], peak: 0, cpu_us: 0 });
    drive_common!(wb, mm, bound, "auto", names);
    *m = mm;
}

fn run_case(base: &Base, kind: &str, detail: &str, bytes: &[u8], out: &mut UnitResult, unit: u64, idx: u64, auto: bool) {
    let bound = (96usize << 20) + 64 * bytes.len();
    let mut m = Monitored { faults: vec![], peak: 0, cpu_us: 0 };
    let (ok, err) = match base.fmt {
        Fmt::Xls => drive_xls(bytes, &mut m, bound),
        Fmt::Xlsx => drive_xlsx(bytes, &mut m, bound),
        Fmt::Xlsb => drive_xlsb(bytes, &mut m, bound),
        Fmt::Ods => drive_ods(bytes, &mut m, bound),
    };
    if auto {
        drive_auto(bytes, &mut m, bound);
        out.feat("auto_detection_driven");
    }
    let f = format!("{:?}", base.fmt).to_lowercase();
    if ok {
        out.feat(&format!("{}:opened", f));
    }
    if err {
        out.feat(&format!("{}:open_error", f));
    }
    // bucket = container + atom family (the part of the kind before the second ':')
    let fam: Vec<&str> = kind.split(':').take(2).collect();
    out.feat(&format!("atom:{}", fam.join(":")));
    out.max("peak_alloc_bytes", m.peak as u64);
    out.max("cpu_us_per_call", m.cpu_us);
    out.case(Some(hash_bytes(bytes)));
    let mut seen = std::collections::BTreeSet::new();
    for fl in m.faults {
        if !seen.insert(fl.class.clone()) {
            continue;
        }
        let mut d = json!({"unit": unit, "case": idx, "base": base.name, "atom": kind, "atom_detail": detail, "what": fl.detail});
        if bytes.len() < 150_000 {
            d["input_hex"] = json!(hex(bytes));
        }
        out.fail(format!("c06|{}", fl.class), d);
    }
}

impl Prop for C06 {
    fn id(&self) -> &'static str {
        "C06"
    }
    fn level(&self) -> &'static str {
        "fault_enumeration"
    }
    fn rule(&self) -> String {
        "base corpus = every xls/xlsx/xlsm/xlsb/ods fixture of the repository plus one generated feature-complete workbook per format (VBA project, merges, table, shared formula, names, every cell kind, multi-CONTINUE SST); fault atoms enumerated per base: zip (part dropped / emptied / truncated / randomised, archive truncated, EOCD corrupted), XML (per distinct element/attribute pair, the first element of a run of same-named siblings and a later one counted separately: 26 hostile values incl. 0, -1, 2^32, 1e20, A0, ZZZZZZZ1, 1:1, B2:A1, B1:A3, A3:B1, XFE1, XFD1048576, 2 KB, invalid UTF-8, 300 nested brackets, multi-byte punctuation in formula position, invalid entities / character references, 1E400; attribute deleted; text nodes likewise; start tag deleted / duplicated, end tag deleted), BIFF (per record type: deleted, duplicated, payload truncated to every length 0..24 and len-1, length field 0xFFFF, stream cut inside the record, (empty) CONTINUE spliced, SST strings ending 0-2 bytes before a record end followed by CONTINUE records of 0-2 bytes, every 16-bit field of the first 24 bytes to 0/1/0x7FFF/0xFFFF, 32-bit fields to extremes, formula token bytes / cce), compound file (every header field to extremes, looping DIFAT chain x declared DIFAT count, FAT and mini-FAT entries to self-loop / cycle / out of range / FREESECT / ENDOFCHAIN, directory start / size / type / name, truncation at sector boundaries +-1), XLSB (per record type: deleted, duplicated, truncated, length varint extremes, 32-bit fields), MS-OVBA (container signature / chunk header / copy tokens / raw chunk / chunk decompressing past 4096 bytes / truncations; dir-stream record ids, lengths, offsets, counts, code page). Every case is opened with its format's reader (and through auto-detection: every case in thorough, every 4th in quick) and every API of the property's observe_at list is called on up to 5 sheet names and a missing name. Thorough adds 1-3 random byte edits on top of every k-th atom. Non-trivial = every faulted file; distinct by hash of the file.".into()
    }
    fn assumptions(&self) -> Vec<String> {
        vec![
            "allocation bound per call: peak live bytes and largest single request <= 96 MiB + 64 x input length; requests >= 1 GiB are refused (process abort, attributed by the supervisor)".into(),
            "CPU bound per call: 10 s in quick, 30 s in thorough (process CPU time, watchdog thread; the slowest legitimate call observed takes about 0.15 s); wall-clock time is never used as a verdict".into(),
            "'time proportional to the input' and 'every byte sequence' are restated as these budgets over the enumerated fault space (see DESIGN.md section 11)".into(),
            "header rows far above the data are not driven here (dense ranges are large by design; see C08)".into(),
        ]
    }
    fn units(&self, tier: Tier) -> u64 {
        bases(tier).len() as u64 * SHARDS
    }
    fn wall_budget_s(&self, tier: Tier) -> u64 {
        tier.pick(1800, 4 * 3600)
    }
    fn cpu_limit_s(&self, tier: Tier) -> u64 {
        tier.pick(10, 30)
    }
    fn mandatory(&self, _t: Tier) -> Vec<String> {
        let mut v: Vec<String> = vec![];
        for f in ["xls", "xlsx", "xlsb", "ods"] {
            v.push(format!("{}:opened", f));
            v.push(format!("{}:open_error", f));
        }
        v.push("auto_detection_driven".into());
        for a in ["none", "zip:part_dropped", "zip:part_truncated", "zip:archive_truncated", "xml:attr", "xml:text", "xml:start_tag_deleted", "xml:end_tag_deleted", "biff:payload_truncated", "biff:field16", "biff:length_field", "biff:continue_spliced", "biff:sst_tiny_continue", "biff:lbl_rgce_truncated", "biff:formula_cce", "cfb:header", "cfb:difat_cycle", "cfb:fat_entry", "cfb:dir_entry", "cfb:truncated", "xlsb:payload_truncated", "xlsb:length_field", "xlsb:field32", "ovba:dir_container", "ovba:module_container", "ovba:dir_record_len", "ovba:module_offset", "vba:cfb"] {
            v.push(format!("atom:{}", a));
        }
        v
    }
    fn run_unit(&self, ctx: &Ctx, unit: u64, out: &mut UnitResult) {
        use std::sync::atomic::Ordering::Relaxed;
        let all = bases(ctx.tier);
        let base = &all[(unit / SHARDS) as usize];
        let shard = unit % SHARDS;
        faults::SHARDS.store(SHARDS, Relaxed);
        faults::SHARD.store(shard, Relaxed);
        let per_key = ctx.tier.pick(1, 6);
        faults::IDX.store(1, Relaxed);
        faults::SKIP.store(ctx.skip, Relaxed);
        // far-cell values (dense-range blow-up, a known finding) only on the generated bases and
        // on the first two fixtures of each format
        let full = base.name.starts_with("generated.") || all.iter().filter(|b| b.fmt == base.fmt && !b.name.starts_with("generated.")).take(2).any(|b| b.name == base.name);
        if full {
            out.feat("far_cell_values_enabled");
        }
        let mut idx: u64 = 1;
        let thorough = ctx.tier == Tier::Thorough;
        let skip = ctx.skip;
        let replay = ctx.verbose;
        let seed = ctx.seed;
        if out.samples.is_empty() {
            out.sample(json!({"base": base.name, "bytes": base.bytes.len(), "format": format!("{:?}", base.fmt)}));
        }
        let mut case = |kind: String, detail: String, bytes: Vec<u8>, out: &mut UnitResult| {
            let i = idx;
            idx += 1;
            faults::IDX.store(idx, Relaxed);
            if i < skip || i % SHARDS != shard || (replay && !out.failures.is_empty()) {
                return;
            }
            if !replay && (out.evals % 100 == 99 || !out.failures.is_empty()) {
                out.flush_partial(unit);
            }
            marker(i, &format!("{} ## {} | {}", kind.split(':').take(2).collect::<Vec<_>>().join(":"), base.name, kind));
            run_case(base, &kind, &detail, &bytes, out, unit, i, thorough || i % 4 == 0);
            if thorough && (i / SHARDS) % 3 == 0 && !bytes.is_empty() {
                // random multi-fault: 1-3 byte edits on top of the structural fault
                let mut rng = Rng::derive(seed, "c06-edit", (unit << 32) | i);
                let mut b = bytes.clone();
                for _ in 0..1 + rng.usize(3) {
                    let at = rng.usize(b.len());
                    match rng.below(3) {
                        0 => b[at] = rng.next_u32() as u8,
                        1 => b[at] ^= 1 << rng.below(8),
                        _ => {
                            b.remove(at);
                        }
                    }
                    if b.is_empty() {
                        break;
                    }
                }
                let i2 = i;
                {
                    marker(i2, &format!("{}+bytes ## {} | {}", kind.split(':').take(2).collect::<Vec<_>>().join(":"), base.name, kind));
                    run_case(base, &format!("{}+bytes", kind), &detail, &b, out, unit, i2, true);
                }
            }
        };
        // the unfaulted file first (in every shard)
        marker(0, &format!("none ## {}", base.name));
        if skip == 0 {
            run_case(base, "none", "", &base.bytes, out, unit, 0, true);
        }
        match base.fmt {
            Fmt::Xls => faults::xls_atoms(&base.bytes, per_key, full, &mut |k, d, b| case(k, d, b, out)),
            _ => faults::zip_atoms(&base.bytes, unit, per_key, full, &mut |k, d, b| case(k, d, b, out)),
        }
    }
}
