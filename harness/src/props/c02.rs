//! C02 — XLS (BIFF8): every cell record reads back at its position with its value; the same number
//! encoded as NUMBER / RK int / RK float / x100 variants / inside MULRK reads numerically equal.

use crate::core::*;
use crate::enc::biff8::{self, BiffChoices, BiffExtra};
use crate::enc::cfb::CfbChoices;
use crate::gen;
use crate::model::*;
use crate::monitor::guard;
use crate::prng::{hash_bytes, Rng};
use calamine::{Data, Reader, Xls};
use serde_json::json;
use std::io::Cursor;

pub struct C02;

pub fn check_xls(book: &MBook, bytes: &[u8], cell_feats: &std::collections::BTreeMap<(usize, Pos), String>, tag: &str, out: &mut UnitResult, ctx: &serde_json::Value) -> bool {
    let fail = |out: &mut UnitResult, class: String, d: serde_json::Value| out.fail(class, json!({"ctx": ctx, "detail": d, "input_hex": hex(bytes)}));
    let mut wb = match guard(|| Xls::new(Cursor::new(bytes.to_vec()))) {
        Ok(Ok(w)) => w,
        Ok(Err(e)) => {
            fail(out, format!("{}|open_error|{}", tag, super::c01::err_variant(&e)), json!(format!("{:?}", e)));
            return false;
        }
        Err(f) => {
            fail(out, format!("{}|open|fault:{}", tag, f.class), json!(f.detail));
            return false;
        }
    };
    let mut ok = true;
    for (si, sh) in book.sheets.iter().enumerate() {
        let exp = biff8::expect_values(book, sh);
        match guard(|| wb.worksheet_range(&sh.name)) {
            Ok(Ok(got)) => {
                out.sum("cells_compared", exp.cells.len() as u64);
                if let Some((sym, d)) = compare_range(&got, &exp, true) {
                    let cf = exp.cells.keys().find(|p| d.contains(&format!("({})", a1(**p)))).and_then(|p| cell_feats.get(&(si, *p))).cloned().unwrap_or_else(|| "-".into());
                    fail(out, format!("{}|{}|{}", tag, sym, cf), json!({"sheet": sh.name, "what": d}));
                    ok = false;
                }
                // 30-bit RK integers are Int, doubles are Float (variant check on plain numbers)
                for (p, v) in &exp.cells {
                    if let (Data::Float(x), Some(f)) = (v, cell_feats.get(&(si, *p))) {
                        let g = got.get_value(*p);
                        let want_int = f.ends_with("RkInt") || (f.ends_with("RkIntDiv100") && (*x * 100.0) as i64 % 100 == 0);
                        let is_int = matches!(g, Some(Data::Int(_)));
                        let is_float = matches!(g, Some(Data::Float(_)));
                        if (f.contains("NUMBER") || f.contains("RkFloat")) && !is_float || want_int && !is_int {
                            fail(out, format!("{}|variant|{}", tag, f), json!({"at": a1(*p), "got": format!("{:?}", g), "value": x}));
                            ok = false;
                            break;
                        }
                    }
                }
            }
            Ok(Err(e)) => {
                fail(out, format!("{}|read_error|{}", tag, super::c01::err_variant(&e)), json!(format!("{:?}", e)));
                ok = false;
            }
            Err(f) => {
                fail(out, format!("{}|read|fault:{}", tag, f.class), json!(f.detail));
                ok = false;
            }
        }
    }
    ok
}

/// numbers with several applicable encodings
fn rk_friendly(rng: &mut Rng, serial: u64) -> f64 {
    match rng.below(8) {
        0 => serial as f64,
        1 => -(serial as f64),
        2 => serial as f64 / 100.0,
        3 => -(serial as f64) - 0.37,
        4 => (serial as f64) * 0.25,
        5 => *rng.pick(&[-536870912.0, 536870911.0, -5368709.12, 5368709.11, 0.0, 1.0, -1.0, 0.01, -0.01, 1e300, 12345678.5]),
        6 => f64::from_bits((rng.next_u64() >> 34) << 34), // low 34 bits zero: RK float
        _ => serial as f64 * 1.000001,
    }
}

fn rk_sweep(unit: u64, n_units: u64, tier: Tier, seed: u64, out: &mut UnitResult) {
    // reference decoder vs the real rk_num through the hook
    let check = |rk: u32, out: &mut UnitResult| {
        let want = biff8::rk_decode(rk);
        for fmt in 0..3u8 {
            let got = calamine::verif::xls_rk_num(rk, fmt, rk & 4 != 0);
            let ok = match (&got, fmt) {
                (Data::Int(i), 0) => rk & 2 != 0 && *i as f64 == want,
                (Data::Float(f), 0) => f.to_bits() == want.to_bits() || (*f == want),
                (Data::DateTime(d), 1 | 2) => d.as_f64() == want || (d.as_f64().is_nan() && want.is_nan()),
                _ => false,
            };
            let int_ok = fmt != 0 || rk & 2 == 0 || matches!(got, Data::Int(_)) || (rk & 1 != 0 && matches!(got, Data::Float(_)));
            if !(ok && int_ok) && !(want.is_nan()) {
                out.fail(format!("c02|rk_num|flags{}|fmt{}", rk & 3, fmt), json!({"rk": rk, "got": format!("{:?}", got), "want": want}));
            }
        }
    };
    if tier == Tier::Thorough {
        // all 2^32 words
        let per = (1u64 << 32) / n_units;
        let lo = unit * per;
        let r = guard(|| {
            let mut o = UnitResult::default();
            for rk in lo..lo + per {
                check(rk as u32, &mut o);
                if o.failures.len() > 5 {
                    break;
                }
            }
            o
        });
        match r {
            Ok(o) => out.failures.extend(o.failures),
            Err(f) => out.fail(format!("c02|rk_num|fault:{}", f.class), json!({})),
        }
        out.evals += per;
        out.distinct_by_construction += per;
    } else {
        // every combination of the 2 flag bits x the top 12 bits x 64 mantissa patterns, + random
        let mut n = 0u64;
        let r = guard(|| {
            let mut o = UnitResult::default();
            let mut rng = Rng::derive(seed, "c02rk", unit);
            for top in (unit..4096).step_by(n_units as usize) {
                for flags in 0..4u32 {
                    for m in 0..64u32 {
                        let mid = if m < 32 { 1u32 << (m % 18) } else { rng.next_u32() & 0x3FFFF };
                        check(((top as u32) << 20) | (mid << 2) | flags, &mut o);
                        n += 1;
                    }
                }
            }
            for _ in 0..(1 << 18) {
                check(rng.next_u32(), &mut o);
                n += 1;
            }
            o
        });
        match r {
            Ok(o) => out.failures.extend(o.failures),
            Err(f) => out.fail(format!("c02|rk_num|fault:{}", f.class), json!({})),
        }
        out.evals += n;
        out.distinct_by_construction += n / 2; // random words may repeat: counted conservatively
    }
    out.feat("rk_sweep");
    out.sample(json!({"rk_words_checked_in_unit": out.evals}));
}

const SWEEP_UNITS: u64 = 16;

impl Prop for C02 {
    fn id(&self) -> &'static str {
        "C02"
    }
    fn rule(&self) -> String {
        "random BIFF8 workbooks (rows 0..65535, cols 0..255; NUMBER, RK in all four flag combinations, MULRK runs, LABELSST, LABEL, BOOLERR with all error codes, FORMULA with cached number/bool/error/string(+STRING), blank records, styled cells, DIMENSIONS exact/absent/wrong) written by an independent encoder into a compound file and compared with the model (numbers numerically, variants per record kind); for every number a random applicable encoding is chosen. RK decoding is swept through a hook: all 2^32 words in thorough, 1M structured + 4M random words in quick. Non-trivial = workbook with >= 1 compared cell; distinct by hash of the file.".into()
    }
    fn assumptions(&self) -> Vec<String> {
        vec![
            "trusted base: the BIFF8 / compound-file reference encoders ([MS-XLS], [MS-CFB])".into(),
            "LABELSST cells referencing the empty string are not generated (the reader drops them by design); sheet names are unique".into(),
            "CodePage 1200 (what Excel writes for BIFF8)".into(),
        ]
    }
    fn units(&self, tier: Tier) -> u64 {
        SWEEP_UNITS + tier.pick(16, 320)
    }
    fn exhaustive(&self, tier: Tier) -> Option<String> {
        (tier == Tier::Thorough).then(|| "RK decoding: all 2^32 RK words x 3 style classes through the rk_num hook".to_string())
    }
    fn mandatory(&self, _t: Tier) -> Vec<String> {
        ["rk_sweep", "rec:num:NUMBER", "rec:num:RK:RkInt", "rec:num:RK:RkIntDiv100", "rec:num:RK:RkFloat", "rec:num:RK:RkFloatDiv100", "rec:MULRK", "rec:str:LABELSST", "rec:str:LABEL", "rec:bool", "rec:error", "rec:blank", "rec:formula:num", "rec:formula:string", "rec:formula:bool", "rec:formula:error", "shrfmla_between_formula_and_string", "sst_index>=65536", "dense_rectangle", "error:getting_data", "rec:formula:blank_string", "cell_order:ColMajor", "cell_order:Reversed", "cell_order:Random", "negative_rk_int", "mulrk_col0", "mulrk_col255", "dims:0", "dims:1", "dims:2"]
            .iter().map(|s| s.to_string()).collect()
    }
    fn run_unit(&self, ctx: &Ctx, unit: u64, out: &mut UnitResult) {
        if unit < SWEEP_UNITS {
            rk_sweep(unit, SWEEP_UNITS, ctx.tier, ctx.seed, out);
            return;
        }
        let n = ctx.tier.pick(20, 40);
        for i in 0..n {
            let mut rng = Rng::derive(ctx.seed, "c02", unit * 10_000 + i);
            let mut book = gen::gen_book(&mut rng, &gen::XLS_LIMITS, &gen::GenOpts { empty_strings: false, max_sheets: 3, max_cells: ctx.tier.pick(40, 120), formulas: true, styles: true });
            let dense = i % 5 == 4;
            if dense {
                // a sheet that is exactly one completely filled rectangle (its records will be
                // written in row-major, column-major, reversed and random order)
                book.sheets.truncate(1);
                let sh = &mut book.sheets[0];
                sh.cells.clear();
                sh.merges.clear();
                let (r0, c0) = (rng.range_u32(0, 40), rng.range_u32(0, 20));
                let (h, w) = (2 + rng.range_u32(0, 4), 2 + rng.range_u32(0, 4));
                for r in 0..h {
                    for c in 0..w {
                        let k = (r0 + r) * 1000 + c0 + c;
                        let val = match rng.below(4) {
                            0 => Val::Str(format!("s{}", k)),
                            1 => Val::Bool(k % 2 == 0),
                            _ => Val::Num(k as f64 + 0.5),
                        };
                        sh.cells.insert((r0 + r, c0 + c), MCell::v(val));
                    }
                }
                out.feat("dense_rectangle");
            }
            // make numbers RK-friendly and add dense numeric rows (MULRK) incl. columns 0 and 255
            let mut serial = 1000 + rng.below(5000);
            for sh in book.sheets.iter_mut() {
                for (_, c) in sh.cells.iter_mut() {
                    serial += 1;
                    if let Val::Err(_) = c.val {
                        if serial % 4 == 0 {
                            c.val = Val::Err(ErrKind::GettingData);
                            out.feat("error:getting_data");
                        }
                    }
                    // a formula whose cached result is the empty string (FormulaValue type 3, no
                    // STRING record follows)
                    if c.formula.is_some() && matches!(c.val, Val::Str(_)) && serial % 3 == 0 {
                        c.val = Val::Str(String::new());
                    }
                    if let Val::Num(_) = c.val {
                        if rng.chance(2, 3) {
                            c.val = Val::Num(rk_friendly(&mut rng, serial));
                        }
                    }
                    if let Val::IsoDate(_) = c.val {
                        c.val = Val::Num(serial as f64);
                    }
                }
                let span = sh.cells.keys().map(|p| p.0).max().unwrap_or(0) - sh.cells.keys().map(|p| p.0).min().unwrap_or(0);
                if !dense && rng.chance(1, 2) && span < 300 {
                    // (the range is dense: keep the bounding box small when adding a full-width row)
                    let r = sh.cells.keys().map(|p| p.0).max().unwrap_or(0).min(65_000) + 1;
                    let (c0, c1) = *rng.pick(&[(0u32, 5u32), (250, 255), (0, 255), (3, 9)]);
                    for c in c0..=c1 {
                        serial += 1;
                        let v = if rng.bool() { -(serial as f64) } else { serial as f64 / 100.0 };
                        sh.cells.insert((r, c), MCell { val: Val::Num(v), xf: if rng.bool() { Some(rng.usize(8)) } else { None }, formula: None });
                    }
                    if c0 == 0 {
                        out.feat("mulrk_col0");
                    }
                    if c1 == 255 {
                        out.feat("mulrk_col255");
                    }
                }
                if sh.cells.values().any(|c| matches!(c.val, Val::Num(x) if x < 0.0 && x.fract() == 0.0)) {
                    out.feat("negative_rk_int");
                }
            }
            for k in 0..ctx.tier.pick(3, 6) {
                let mut bc = if k == 0 { BiffChoices::default() } else { BiffChoices::random(&mut rng) };
                if dense {
                    use crate::enc::biff8::CellOrder;
                    bc.cell_order = [CellOrder::RowMajor, CellOrder::ColMajor, CellOrder::Reversed, CellOrder::Random][k as usize % 4];
                }
                let n_str = book.sheets.iter().flat_map(|s| s.cells.values()).filter(|c| matches!(c.val, Val::Str(_)) && c.formula.is_none()).count();
                if unit == SWEEP_UNITS && k == 1 && i < 6 && n_str >= 3 {
                    // a shared string table of more than 65536 items: the LABELSST indices of this
                    // workbook straddle the 16-bit boundary
                    bc.str_form = crate::enc::biff8::StrForm::LabelSst;
                    bc.sst_pad = 65_536 - n_str / 2;
                    out.feat("sst_index>=65536");
                }
                out.feat(&format!("dims:{}", bc.dims));
                let (bytes, enc) = crate::enc::xls_file(&book, &bc, &BiffExtra::default(), &CfbChoices::default(), &[], &mut rng);
                for (kf, n) in &enc.counts {
                    out.feat_n(kf, *n);
                }
                let cj = json!({"unit": unit, "model": i, "encoding": k, "choices": format!("{:?}", bc)});
                check_xls(&book, &bytes, &enc.cell_feats, "c02", out, &cj);
                let cells: usize = book.sheets.iter().map(|s| s.cells.len()).sum();
                out.case(if cells > 0 { Some(hash_bytes(&bytes)) } else { None });
                if out.samples.is_empty() && cells > 0 {
                    out.sample(json!({"sheets": book.sheets.len(), "cells": enc.cell_feats.iter().take(5).map(|(k, f)| format!("{}:{}", a1(k.1), f)).collect::<Vec<_>>(), "file_bytes": bytes.len()}));
                }
            }
        }
    }
}
