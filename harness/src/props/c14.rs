//! C14 — formulas are reported at their cell with the A1 text the file encodes.
//! Formula ASTs are encoded to BIFF8 / XLSB token streams (and to text for xlsx / ods) and the
//! text reported by worksheet_formula / defined_names is compared with an independent AST -> A1
//! renderer; the token parsers are also driven directly through hooks, and push_column is swept
//! over all columns. A failing formula is attributed to its smallest failing sub-expressions.

use crate::core::*;
use crate::enc::biff8::{BiffChoices, BiffExtra};
use crate::enc::cfb::CfbChoices;
use crate::enc::ods::OdsChoices;
use crate::enc::xlsb::{XlsbChoices, XlsbExtra};
use crate::enc::xlsx::XlsxChoices;
use crate::fml::{self, Env, Ex, GenCfg};
use crate::model::*;
use crate::monitor::guard;
use crate::prng::{hash_str, Rng};
use calamine::{Ods, Reader, Xls, Xlsb, Xlsx};
use serde_json::json;
use std::collections::BTreeMap;
use std::io::Cursor;

pub struct C14;

fn children(e: &Ex) -> Vec<&Ex> {
    match e {
        Ex::Un(_, a) | Ex::Paren(a) | Ex::AttrSum(a) => vec![a],
        Ex::Bin(_, a, b) => vec![a, b],
        Ex::Func(_, args) => args.iter().collect(),
        _ => vec![],
    }
}

fn top_kind(e: &Ex) -> String {
    let mut v = vec![];
    e.kinds(&mut v);
    v.into_iter().next().unwrap_or_default()
}

struct Ctx14 {
    sheets: Vec<String>,
    names: Vec<String>,
    xti_sheet_idx: Vec<usize>,
    /// index (into names) of a name that has no formula
    formula_less: Option<usize>,
}

impl Ctx14 {
    fn env_sheets(&self) -> Vec<String> {
        self.xti_sheet_idx.iter().map(|i| self.sheets[*i].clone()).collect()
    }
}

fn render_direct(e: &Ex, wide: bool, c: &Ctx14, rng: &mut Rng) -> Result<Result<String, String>, crate::monitor::Fault> {
    let mut rg = vec![];
    e.rgce(wide, &mut rg);
    let names: Vec<(String, String)> = c.names.iter().map(|n| (n.clone(), String::new())).collect();
    if wide {
        let ext = c.env_sheets();
        guard(|| calamine::verif::xlsb_formula(&rg, &ext, &names))
    } else {
        let mut with = (rg.len() as u16).to_le_bytes().to_vec();
        with.extend_from_slice(&rg);
        let xtis: Vec<(u16, i16, i16)> = c.xti_sheet_idx.iter().map(|i| (0u16, *i as i16, *i as i16)).collect();
        guard(|| calamine::verif::xls_formula(&with, &c.sheets, &names, &xtis))
    }
}

/// kinds of the smallest sub-expressions whose stand-alone rendering is wrong
fn culprits(e: &Ex, wide: bool, c: &Ctx14, rng: &mut Rng, acc: &mut std::collections::BTreeSet<String>) -> bool {
    let env_s = c.env_sheets();
    let env = Env { xti_sheets: &env_s, names: &c.names };
    let mut child_bad = false;
    for ch in children(e) {
        if matches!(ch, Ex::Missing) {
            continue;
        }
        child_bad |= culprits(ch, wide, c, rng, acc);
    }
    let ok = matches!(render_direct(e, wide, c, rng), Ok(Ok(ref s)) if *s == e.a1(&env));
    if !ok && !child_bad {
        acc.insert(top_kind(e));
    }
    !ok
}

fn fail_class(fmt: &str, what: &str, e: &Ex, wide: bool, c: &Ctx14, rng: &mut Rng) -> String {
    let mut acc = std::collections::BTreeSet::new();
    culprits(e, wide, c, rng, &mut acc);
    let k = if acc.is_empty() { "context".to_string() } else { acc.into_iter().collect::<Vec<_>>().join("+") };
    format!("c14|{}|{}|{}", fmt, what, k)
}

fn gen_ctx(rng: &mut Rng) -> Ctx14 {
    let n_sheets = 1 + rng.usize(4);
    let sheets: Vec<String> = (0..n_sheets).map(|i| format!("{}{}", ["Sheet", "Data", "Two", "Tab_"][i % 4], i + 1)).collect();
    let mut xti: Vec<usize> = (0..n_sheets).collect();
    rng.shuffle(&mut xti); // the XTI order differs from the sheet order
    if rng.bool() {
        xti.push(rng.usize(n_sheets));
    }
    let mut names: Vec<String> = (0..rng.usize(4)).map(|i| ["Total", "Rate_2", "tax.rate", "Q1_total"][i].to_string()).collect();
    // a built-in name (one character: 0x06 = Print_Area, 0x0D = _FilterDatabase; the xls Lbl
    // record carries the fBuiltin flag) in front of or between the user-defined names
    if rng.chance(1, 3) {
        let at = rng.usize(names.len() + 1);
        names.insert(at, if rng.bool() { "\u{6}".to_string() } else { "\u{d}".to_string() });
    }
    // a name without formula (e.g. a VBA function declaration) still occupies its index
    let formula_less = if rng.chance(1, 3) {
        let at = rng.usize(names.len() + 1);
        names.insert(at, "VbaFunc".to_string());
        Some(at)
    } else {
        None
    };
    Ctx14 { sheets, names, xti_sheet_idx: xti, formula_less }
}

fn direct(rng: &mut Rng, out: &mut UnitResult, n: u64) {
    for _ in 0..n {
        let c = gen_ctx(rng);
        let wide = rng.bool();
        let g = if wide { GenCfg { max_row: 1_048_575, max_col: 16_383, n_xti: c.xti_sheet_idx.len(), n_names: c.names.len() } } else { GenCfg { max_row: 65_535, max_col: 255, n_xti: c.xti_sheet_idx.len(), n_names: c.names.len() } };
        let e = fml::gen_expr(rng, &g, 0);
        let env_s = c.env_sheets();
        let want = e.a1(&Env { xti_sheets: &env_s, names: &c.names });
        let mut kinds = vec![];
        e.kinds(&mut kinds);
        for k in &kinds {
            out.feat(&format!("{}:{}", if wide { "xlsb" } else { "xls" }, k.split(':').next().unwrap()));
        }
        let fmt = if wide { "xlsb_tokens" } else { "xls_tokens" };
        match render_direct(&e, wide, &c, rng) {
            Ok(Ok(got)) if got == want => {}
            Ok(Ok(got)) => {
                let cl = fail_class(fmt, "text", &e, wide, &c, rng);
                out.fail(cl, json!({"got": got, "want": want}));
            }
            Ok(Err(err)) => {
                let cl = fail_class(fmt, "error", &e, wide, &c, rng);
                out.fail(cl, json!({"err": err, "want": want}));
            }
            Err(f) => out.fail(format!("c14|{}|fault:{}", fmt, f.class), json!({"want": want})),
        }
        out.case(Some(hash_str(&format!("{}{}", wide, want))));
        out.sum("direct_formulas", 1);
        if out.samples.is_empty() {
            out.sample(json!({"format": fmt, "formula": want}));
        }
    }
}

fn compare_formulas(got: &calamine::Range<String>, exp: &BTreeMap<Pos, String>) -> Option<(String, Option<Pos>, String)> {
    let bounds = if exp.is_empty() {
        None
    } else {
        Some((
            (exp.keys().map(|p| p.0).min().unwrap(), exp.keys().map(|p| p.1).min().unwrap()),
            (exp.keys().map(|p| p.0).max().unwrap(), exp.keys().map(|p| p.1).max().unwrap()),
        ))
    };
    for (p, f) in exp {
        match got.get_value(*p) {
            Some(g) if g == f => {}
            g => return Some(("formula_text".into(), Some(*p), format!("at {}: got {:?}, want {:?}", a1(*p), g, f))),
        }
    }
    if got.start().zip(got.end()) != bounds {
        return Some(("bounds".into(), None, format!("{:?} vs {:?}", got.start().zip(got.end()), bounds)));
    }
    if got.used_cells().count() != exp.len() {
        return Some(("extra_formula".into(), None, format!("{} used cells vs {}", got.used_cells().count(), exp.len())));
    }
    None
}

fn file_case(rng: &mut Rng, out: &mut UnitResult, unit: u64, i: u64) {
    let c = gen_ctx(rng);
    let fmt = ["xls", "xlsb", "xlsx", "ods"][(i % 4) as usize];
    out.feat(&format!("file:{}", fmt));
    let wide = fmt != "xls";
    let g = GenCfg { max_row: if wide { 1_048_575 } else { 65_535 }, max_col: if wide { 16_383 } else { 255 }, n_xti: if fmt == "xls" || fmt == "xlsb" { c.xti_sheet_idx.len() } else { 0 }, n_names: if fmt == "xls" || fmt == "xlsb" { c.names.len() } else { 0 } };
    let env_s = c.env_sheets();
    let env = Env { xti_sheets: &env_s, names: &c.names };
    let mut book = MBook { xfs: crate::gen::basic_xfs(), ..Default::default() };
    let mut asts: BTreeMap<(usize, Pos), Ex> = BTreeMap::new();
    let mut expected: Vec<BTreeMap<Pos, String>> = vec![];
    for (si, name) in c.sheets.iter().enumerate() {
        let mut sh = MSheet::new(name);
        let mut exp = BTreeMap::new();
        let at_end = fmt != "ods" && rng.chance(1, 6); // (the ods writer walks every row from 0)
        let r0 = if at_end { g.max_row - 30 } else if rng.bool() { 0 } else { rng.range_u32(0, (g.max_row - 40).min(70_000)) };
        let c0 = if rng.bool() { 0 } else { rng.range_u32(0, g.max_col - 12) };
        for k in 0..rng.usize(10) {
            let p = (if at_end && k == 0 { g.max_row } else { r0 + rng.range_u32(0, 30) }, c0 + rng.range_u32(0, 10));
            if at_end && k == 0 {
                out.feat(&format!("{}:last_row", fmt));
            }
            let e = fml::gen_expr(rng, &g, 0);
            let text = match fmt {
                "ods" => format!("of:={}", e.a1(&env)),
                _ => e.a1(&env),
            };
            let val = match k % 4 {
                0 => Val::Num(k as f64 + 0.5),
                1 => Val::Str(format!("res{}", k)),
                2 => Val::Bool(true),
                _ => if fmt == "ods" { Val::Blank } else { Val::Err(ErrKind::Div0) },
            };
            if fmt == "ods" && val == Val::Blank {
                // a formula cell without a cached result
                out.feat("ods:formula_without_cached_value");
            }
            sh.cells.insert(p, MCell { val, xf: None, formula: Some(text.clone()) });
            exp.insert(p, text);
            asts.insert((si, p), e);
        }
        // non-formula cells must read as ""
        for _ in 0..rng.usize(6) {
            let p = (r0 + rng.range_u32(0, 30), c0 + rng.range_u32(0, 10));
            sh.cells.entry(p).or_insert_with(|| MCell::v(Val::Num(3.0)));
        }
        book.sheets.push(sh);
        expected.push(exp);
    }
    // defined names: 3-D references through the XTI table
    let mut name_asts: Vec<Ex> = vec![];
    let name_defs: Vec<(String, Ex)> = c
        .names
        .iter()
        .map(|n| {
            let x = rng.usize(c.xti_sheet_idx.len());
            let mk = |rng: &mut Rng| {
                let mut r = fml::gen_cref(rng, &g);
                r.row_rel = rng.chance(1, 4);
                r.col_rel = rng.chance(1, 4);
                r
            };
            let e = if rng.bool() {
                Ex::Ref3d(x, mk(rng))
            } else {
                let (a, b) = (mk(rng), mk(rng));
                let (a, b) = (fml::CRef { row: a.row.min(b.row), col: a.col.min(b.col), ..a }, fml::CRef { row: a.row.max(b.row), col: a.col.max(b.col), ..b });
                Ex::Area3d(x, a, b)
            };
            name_asts.push(e.clone());
            (n.clone(), e)
        })
        .collect();
    let ctxj = json!({"unit": unit, "case": i, "format": fmt});
    let mut rg_map = BTreeMap::new();
    for (k, e) in &asts {
        let mut v = vec![];
        e.rgce(wide, &mut v);
        rg_map.insert(*k, v);
    }
    let names_rg: Vec<(String, Vec<u8>)> = name_defs
        .iter()
        .enumerate()
        .map(|(i, (n, e))| {
            let mut v = vec![];
            if c.formula_less != Some(i) {
                e.rgce(wide, &mut v);
            }
            (n.clone(), v)
        })
        .collect();
    if c.formula_less.is_some() && (fmt == "xls" || fmt == "xlsb") {
        out.feat("formula_less_name");
    }
    if c.names.iter().any(|n| n.chars().count() == 1 && (n.as_bytes()[0] as u32) < 0x0E) && fmt == "xls" {
        out.feat("xls:builtin_name");
    }
    let want_names: Vec<(String, String)> = name_defs.iter().map(|(n, e)| (n.clone(), e.a1(&env))).collect();
    // ---- encode, open, compare
    let (bytes, formulas, defined): (Vec<u8>, Vec<Result<calamine::Range<String>, String>>, Option<Vec<(String, String)>>) = match fmt {
        "xls" => {
            // every third workbook has a chart or VBA-module sheet in front of the worksheets: the
            // sheet indices of the XTI table count every BoundSheet record
            let shift = if i % 3 == 0 { 1usize } else { 0 };
            let mut book = book.clone();
            if shift == 1 {
                let mut s0 = MSheet::new("ChartOrModule");
                s0.kind = if rng.bool() { SheetKind::Chart } else { SheetKind::Vba };
                book.sheets.insert(0, s0);
                out.feat("xls:non_worksheet_before_3d_target");
            }
            let rg_map: BTreeMap<(usize, Pos), Vec<u8>> = rg_map.into_iter().map(|(k, v)| ((k.0 + shift, k.1), v)).collect();
            let extra = BiffExtra { rgce: rg_map, names: names_rg, xtis: c.xti_sheet_idx.iter().map(|i| (0u16, (*i + shift) as i16, (*i + shift) as i16)).collect() };
            let (bytes, _) = crate::enc::xls_file(&book, &BiffChoices::random(rng), &extra, &CfbChoices::default(), &[], rng);
            match guard(|| Xls::new(Cursor::new(bytes.clone()))) {
                Ok(Ok(mut w)) => {
                    let f = c.sheets.iter().map(|s| w.worksheet_formula(s).map_err(|e| format!("{:?}", e))).collect();
                    let d = w.defined_names().to_vec();
                    (bytes, f, Some(d))
                }
                Ok(Err(e)) => {
                    out.fail(format!("c14|xls|open_error|{}", super::c01::err_variant(&e)), json!({"ctx": ctxj, "err": format!("{:?}", e), "input_hex": hex(&bytes)}));
                    return;
                }
                Err(f) => {
                    out.fail(format!("c14|xls|open|fault:{}", f.class), json!({"ctx": ctxj, "input_hex": hex(&bytes)}));
                    return;
                }
            }
        }
        "xlsb" => {
            let extra = XlsbExtra { rgce: rg_map, names: names_rg, xtis: c.xti_sheet_idx.iter().map(|i| (*i as i32, *i as i32)).collect() };
            let enc = crate::enc::xlsb::encode(&book, &XlsbChoices::random(rng), &extra, rng);
            let bytes = enc.bytes;
            match guard(|| Xlsb::new(Cursor::new(bytes.clone()))) {
                Ok(Ok(mut w)) => {
                    let f = c.sheets.iter().map(|s| guard(|| w.worksheet_formula(s)).map_err(|f| format!("fault:{}", f.class)).and_then(|r| r.map_err(|e| format!("{:?}", e)))).collect();
                    let d = w.defined_names().to_vec();
                    (bytes, f, Some(d))
                }
                Ok(Err(e)) => {
                    out.fail(format!("c14|xlsb|open_error|{}", super::c01::err_variant(&e)), json!({"ctx": ctxj, "err": format!("{:?}", e), "input_hex": hex(&bytes)}));
                    return;
                }
                Err(f) => {
                    out.fail(format!("c14|xlsb|open|fault:{}", f.class), json!({"ctx": ctxj, "input_hex": hex(&bytes)}));
                    return;
                }
            }
        }
        "xlsx" => {
            let enc = crate::enc::xlsx::encode(&book, &XlsxChoices::random(rng), rng);
            let bytes = enc.bytes;
            match guard(|| Xlsx::new(Cursor::new(bytes.clone()))) {
                Ok(Ok(mut w)) => {
                    let f = c.sheets.iter().map(|s| w.worksheet_formula(s).map_err(|e| format!("{:?}", e))).collect();
                    (bytes, f, None)
                }
                Ok(Err(e)) => {
                    out.fail(format!("c14|xlsx|open_error|{}", super::c01::err_variant(&e)), json!({"ctx": ctxj, "err": format!("{:?}", e), "input_hex": hex(&bytes)}));
                    return;
                }
                Err(f) => {
                    out.fail(format!("c14|xlsx|open|fault:{}", f.class), json!({"ctx": ctxj, "input_hex": hex(&bytes)}));
                    return;
                }
            }
        }
        _ => {
            let enc = crate::enc::ods::encode(&book, &OdsChoices::random(rng), rng);
            let bytes = enc.bytes;
            match guard(|| Ods::new(Cursor::new(bytes.clone()))) {
                Ok(Ok(mut w)) => {
                    let f = c.sheets.iter().map(|s| w.worksheet_formula(s).map_err(|e| format!("{:?}", e))).collect();
                    (bytes, f, None)
                }
                Ok(Err(e)) => {
                    out.fail(format!("c14|ods|open_error|{}", super::c01::err_variant(&e)), json!({"ctx": ctxj, "err": format!("{:?}", e), "input_hex": hex(&bytes)}));
                    return;
                }
                Err(f) => {
                    out.fail(format!("c14|ods|open|fault:{}", f.class), json!({"ctx": ctxj, "input_hex": hex(&bytes)}));
                    return;
                }
            }
        }
    };
    for (si, r) in formulas.iter().enumerate() {
        out.sum("file_formulas_compared", expected[si].len() as u64);
        match r {
            Ok(range) => {
                if let Some((sym, pos, d)) = compare_formulas(range, &expected[si]) {
                    let class = match (pos, sym.as_str()) {
                        (Some(p), "formula_text") if fmt == "xls" || fmt == "xlsb" => fail_class(fmt, "formula_text", &asts[&(si, p)], wide, &c, rng),
                        _ => format!("c14|{}|{}", fmt, sym),
                    };
                    out.fail(class, json!({"ctx": ctxj, "sheet": c.sheets[si], "what": d, "input_hex": hex(&bytes)}));
                    return;
                }
            }
            Err(e) => {
                out.fail(format!("c14|{}|read_error|{}", fmt, e.split(|c: char| !c.is_alphanumeric() && c != ':' && c != '|').next().unwrap_or("?")), json!({"ctx": ctxj, "err": e, "input_hex": hex(&bytes)}));
                return;
            }
        }
    }
    if let Some(d) = defined {
        out.feat(&format!("defined_names:{}", fmt));
        // the text reported for a formula-less name is not specified: only its presence is
        let mut d = d;
        if let Some(at) = c.formula_less {
            if let (Some(g), Some(w)) = (d.get_mut(at), want_names.get(at)) {
                if g.0 == w.0 {
                    g.1 = w.1.clone();
                }
            }
        }
        if d != want_names {
            // attribute to the first differing name's token kind
            let k = d.iter().zip(want_names.iter()).position(|(a, b)| a != b).and_then(|i| name_asts.get(i)).map(top_kind).unwrap_or_else(|| "count".into());
            out.fail(format!("c14|{}|defined_names|{}", fmt, k), json!({"ctx": ctxj, "got": d, "want": want_names, "input_hex": hex(&bytes)}));
        }
    }
    out.case(Some(crate::prng::hash_bytes(&bytes)));
}

const SWEEP: u64 = 1;

impl Prop for C14 {
    fn id(&self) -> &'static str {
        "C14"
    }
    fn rule(&self) -> String {
        "formula ASTs over {cell/area refs relative/absolute/mixed at columns A..IV/XFD and rows to the format limit, 3-D refs through an XTI table whose order differs from the sheet order, defined names, Int/Num/Str(8- and 16-bit)/Bool/Err literals, unary + - %, 12 binary operators, parentheses, 40 functions of fixed and variable arity with 0..8 arguments incl. missing arguments, PtgAttrSum}, depth <= 5, encoded to BIFF8 and XLSB token streams (random token classes) and to text for xlsx/ods, placed at random cells of 1..4 sheets and read through worksheet_formula and defined_names; the token parsers are also driven directly through hooks; push_column is swept over all 16384 columns. Oracle: an independent AST -> A1 renderer. Distinct by hash of (format, expected text).".into()
    }
    fn assumptions(&self) -> Vec<String> {
        vec![
            "sheet names are plain identifiers (no quoting needed); string literals contain no double quote".into(),
            "number literals are rendered with Rust's shortest round-trip formatting on both sides".into(),
            "binary operators are rendered without re-deriving parentheses (the token stream is the evaluation order)".into(),
            "function names and fixed arities are taken from [MS-XLS] 2.5.198.17 for the 40 functions used".into(),
        ]
    }
    fn units(&self, tier: Tier) -> u64 {
        SWEEP + tier.pick(16, 240)
    }
    fn exhaustive(&self, _t: Tier) -> Option<String> {
        Some("column lettering: push_column for every column 0..16383".into())
    }
    fn mandatory(&self, _t: Tier) -> Vec<String> {
        let mut v: Vec<String> = ["push_column_sweep", "file:xls", "file:xlsb", "file:xlsx", "file:ods", "defined_names:xls", "defined_names:xlsb", "formula_less_name", "xls:builtin_name", "xls:non_worksheet_before_3d_target", "xlsb:last_row", "ods:formula_without_cached_value"].iter().map(|s| s.to_string()).collect();
        for f in ["xls", "xlsb"] {
            for k in ["PtgRef", "PtgArea", "PtgRef3d", "PtgArea3d", "PtgName", "PtgInt", "PtgNum", "PtgStr", "PtgBool", "PtgErr", "PtgMissArg", "unary", "binary", "PtgParen", "PtgFunc", "PtgFuncVar", "PtgAttrSum"] {
                v.push(format!("{}:{}", f, k));
            }
        }
        v
    }
    fn run_unit(&self, ctx: &Ctx, unit: u64, out: &mut UnitResult) {
        if unit < SWEEP {
            for c in 0..16_384u32 {
                match guard(|| calamine::verif::push_column(c)) {
                    Ok(s) if s == col_name(c) => {}
                    Ok(s) => out.fail("c14|push_column|value", json!({"col": c, "got": s, "want": col_name(c)})),
                    Err(f) => out.fail(format!("c14|push_column|fault:{}", f.class), json!({"col": c})),
                }
            }
            out.evals += 16_384;
            out.distinct_by_construction += 16_384;
            out.feat("push_column_sweep");
            return;
        }
        let mut rng = Rng::derive(ctx.seed, "c14", unit);
        direct(&mut rng, out, ctx.tier.pick(6000, 40_000));
        for i in 0..ctx.tier.pick(48, 200) {
            file_case(&mut rng, out, unit, i);
        }
    }
}
