//! C18 — VBA modules are extracted byte-exact from the compressed project.
//! (a) decompress_stream inverts every valid container (direct hook sweep over strategies);
//! (b) whole projects in xlsm / xlsb parts and xls files read back through vba_project().

use crate::core::*;
use crate::enc::biff8::{BiffChoices, BiffExtra};
use crate::enc::cfb::{self, CfbChoices};
use crate::enc::ovba::{self, Module, Project, RefKind, Reference, Stats, Strategy};
use crate::enc::xlsb::{XlsbChoices, XlsbExtra};
use crate::enc::xlsx::XlsxChoices;
use crate::model::*;
use crate::monitor::guard;
use crate::prng::{hash_bytes, Rng};
use calamine::{Reader, Xls, Xlsb, Xlsx};
use serde_json::json;
use std::io::Cursor;

pub struct C18;

fn gen_source(rng: &mut Rng, len: usize, codepage: u16) -> Vec<u8> {
    // low / high redundancy VBA-like text in the project's code page
    let words_1252 = ["Sub ", "End Sub\r\n", "Dim x As Long\r\n", "'-----", "MsgBox \"Ã©té\"\r\n", "x = x + 1\r\n", "Ünïcödé ", "    ", "\r\n"];
    let words_1251 = ["Sub ", "End Sub\r\n", "Dim ж As Long\r\n", "'-----", "MsgBox \"Привет\"\r\n", "x = x + 1\r\n", "    ", "\r\n"];
    let words_932 = ["Sub ", "End Sub\r\n", "Dim x As Long\r\n", "'-----", "MsgBox \"日本語ﾃｱ\"\r\n", "x = x + 1\r\n", "    ", "\r\n"];
    let words: &[&str] = match codepage {
        1251 => &words_1251,
        932 => &words_932,
        _ => &words_1252,
    };
    // mode 4: the only non-ASCII bytes are sequences that are also well-formed UTF-8
    let lookalike: &[&str] = match codepage {
        932 => &["MsgBox \"ﾃｱ\"\r\n", "x = 1\r\n"],
        1251 => &["MsgBox \"Ð±\"\r\n", "x = 1\r\n"],
        _ => &["MsgBox \"Ã©\"\r\n", "x = 1\r\n"],
    };
    let mode = rng.below(5);
    let words = if mode == 4 { lookalike } else { words };
    let mut s = String::new();
    let mut out: Vec<u8> = vec![];
    while out.len() < len {
        match mode {
            0 => s.push_str(words[rng.usize(words.len())]),
            1 => {
                // long runs (overlapping copies, maximal lengths)
                let c = *rng.pick(&['-', ' ', 'A', '=']);
                for _ in 0..rng.range(1, 600) {
                    s.push(c);
                }
                s.push_str("\r\n");
            }
            2 => {
                // incompressible
                for _ in 0..64 {
                    s.push((b'!' + rng.below(90) as u8) as char);
                }
            }
            _ => {
                s.push_str(words[rng.usize(words.len())]);
                if rng.chance(1, 3) {
                    s.push_str(&format!("{}", rng.next_u32()));
                }
            }
        }
        out = ovba::encode_mbcs(&s, codepage);
    }
    out.truncate(len);
    // truncation may cut a multi-byte sequence in half; that is fine for raw bytes (text is
    // decoded by the same decoder on both sides)
    out
}

fn pick_len(rng: &mut Rng) -> usize {
    match rng.below(10) {
        0 => 0,
        1 => 1,
        2 => *rng.pick(&[4095usize, 4096, 4097]),
        3 => 3 * 4096 + rng.usize(50),
        4 => 8192,
        5 => rng.usize(12_000),
        _ => rng.usize(600),
    }
}

fn record_stats(st: &Stats, out: &mut UnitResult) {
    for (b, n) in &st.bit_splits {
        out.feat_n(&format!("copy_token_offset_bits:{}", b), *n);
    }
    out.feat_n("overlapping_copy", st.overlapping_copies);
    out.feat_n("max_length_copy", st.max_len_copies);
    out.feat_n("raw_chunk", st.raw_chunks);
    out.feat_n("compressed_chunk", st.compressed_chunks);
    out.feat_n("chunk_end_on_full_flag_group", st.chunk_end_on_full_flag_group);
}

fn direct(rng: &mut Rng, out: &mut UnitResult, n: u64) {
    for _ in 0..n {
        let len = pick_len(rng);
        let src = gen_source(rng, len, 1252);
        let strat = *rng.pick(&ovba::STRATEGIES);
        let mut st = Stats::default();
        let c = ovba::compress(&src, strat, rng, &mut st);
        // encoder self-check: a disagreement here is a harness error, not a finding
        if st.unencodable {
            out.sum("unencodable_sources_skipped", 1);
            continue;
        }
        let selfcheck = ovba::decompress(&c);
        assert!(
            selfcheck.as_deref() == Some(&src[..]),
            "reference compressor/decompressor disagree: strategy {:?} len {} container {} got {:?}",
            strat,
            src.len(),
            c.len(),
            selfcheck.map(|v| v.len())
        );
        record_stats(&st, out);
        out.feat(&format!("strategy:{:?}", strat));
        let chunks = len.div_ceil(4096);
        out.feat(match chunks {
            0 => "chunks:0",
            1 => "chunks:1",
            _ => "chunks:>1",
        });
        let class_tail = format!("{:?}|{}", strat, if chunks > 1 { "multi_chunk" } else { "single_chunk" });
        match guard(|| calamine::verif::cfb_decompress_stream(&c)) {
            Ok(Ok(got)) => {
                if got != src {
                    let at = got.iter().zip(src.iter()).position(|(a, b)| a != b).unwrap_or(got.len().min(src.len()));
                    out.fail(format!("c18|decompress|{}|{}", if got.len() != src.len() { "length" } else { "content" }, class_tail), json!({"len": len, "got_len": got.len(), "first_diff": at, "container_hex": hex(&c[..c.len().min(20_000)])}));
                }
            }
            Ok(Err(e)) => out.fail(format!("c18|decompress|error|{}", class_tail), json!({"len": len, "err": e, "container_hex": hex(&c[..c.len().min(20_000)])})),
            Err(f) => out.fail(format!("c18|decompress|fault:{}|{}", f.class, class_tail), json!({"len": len, "container_hex": hex(&c[..c.len().min(20_000)])})),
        }
        out.case(if len > 0 { Some(hash_bytes(&c)) } else { None });
        out.sum("containers_decompressed", 1);
    }
}

fn gen_project(rng: &mut Rng) -> Project {
    let codepage = *rng.pick(&[1252u16, 1252, 1251, 932, 65001, 437]);
    let n = 1 + rng.usize(6);
    let names: Vec<String> = match codepage {
        1251 => vec!["Module1", "Модуль2", "ЭтаКнига", "Лист1", "Sheet2", "Класс1", "M7"],
        932 => vec!["Module1", "モジュール2", "ThisWorkbook", "Sheet1", "クラス1", "M6", "M7"],
        437 => vec!["Module1", "Module2", "ThisWorkbook", "Sheet1", "Class1", "M6", "M7"],
        // "Project" / "workbook": module streams whose names differ only in case from the root
        // PROJECT stream and from the Workbook stream of an xls container
        _ => vec!["Module1", "Modül2", "Project", "Sheet1", "workbook", "Módulo 6", "M7"],
    }
    .into_iter()
    .map(String::from)
    .collect();
    let modules = (0..n)
        .map(|i| Module {
            name: names[i].clone(),
            source: {
                let l = pick_len(rng);
                gen_source(rng, l, codepage)
            },
            text_offset: *rng.pick(&[0usize, 0, 1, 7, 100, 1999]),
            document: rng.bool(),
            read_only: rng.chance(1, 4),
            private: rng.chance(1, 4),
        })
        .collect();
    let kinds = [RefKind::Registered, RefKind::Project, RefKind::Control, RefKind::OriginalControl];
    let references = (0..rng.usize(4))
        .map(|i| Reference { name: format!("Ref{}_{}", i, ["stdole", "Office", "MSForms", "Lib é"][i % 4]), kind: kinds[rng.usize(4)].clone() })
        .collect();
    Project { codepage, modules, references, compat_version: rng.bool() }
}

/// code page 437 (IBM PC): not among the encodings calamine can decode
const CP437_HIGH: &str = "ÇüéâäàåçêëèïîìÄÅÉæÆôöòûùÿÖÜ¢£¥₧ƒáíóúñÑªº¿⌐¬½¼¡«»░▒▓│┤╡╢╖╕╣║╗╝╜╛┐└┴┬├─┼╞╟╚╔╩╦╠═╬╧╨╤╥╙╘╒╓╫╪┘┌█▄▌▐▀αßΓπΣσµτΦΘΩδ∞φε∩≡±≥≤⌠⌡÷≈°∙·√ⁿ²■\u{a0}";

fn decode_cp(bytes: &[u8], codepage: u16) -> String {
    if codepage == 437 {
        let high: Vec<char> = CP437_HIGH.chars().collect();
        assert_eq!(high.len(), 128, "cp437 table");
        return bytes.iter().map(|b| if *b < 0x80 { *b as char } else { high[(*b - 0x80) as usize] }).collect();
    }
    let enc = match codepage {
        1251 => encoding_rs::WINDOWS_1251,
        932 => encoding_rs::SHIFT_JIS,
        65001 => encoding_rs::UTF_8,
        _ => encoding_rs::WINDOWS_1252,
    };
    enc.decode(bytes).0.into_owned()
}

fn check_project(p: &Project, vba: Option<Result<calamine::vba::VbaProject, String>>, container: &str, out: &mut UnitResult, ctx: &serde_json::Value, bytes: &[u8]) {
    let fail = |out: &mut UnitResult, class: String, d: serde_json::Value| {
        let mut j = json!({"ctx": ctx, "detail": d});
        if bytes.len() < 200_000 {
            j["input_hex"] = json!(hex(bytes));
        }
        out.fail(class, j)
    };
    let v = match vba {
        Some(Ok(v)) => v,
        // a code page the reader cannot decode: refusing the project is fine, wrong text is not
        Some(Err(_)) if p.codepage == 437 => {
            out.feat("unsupported_codepage:error");
            return;
        }
        Some(Err(e)) => {
            fail(out, format!("c18|project|error|{}", container), json!(e));
            return;
        }
        None => {
            fail(out, format!("c18|project|none|{}", container), json!(null));
            return;
        }
    };
    let mut want: Vec<&str> = p.modules.iter().map(|m| m.name.as_str()).collect();
    want.sort();
    let got = v.get_module_names();
    if got != want {
        fail(out, format!("c18|module_names|cp{}", p.codepage), json!({"got": got, "want": want}));
        return;
    }
    for m in &p.modules {
        out.sum("modules_compared", 1);
        match v.get_module_raw(&m.name) {
            Ok(raw) if raw == &m.source[..] => {}
            Ok(raw) => {
                fail(out, format!("c18|module_raw|{}", if m.source.len() > 4096 { "multi_chunk" } else { "single_chunk" }), json!({"module": m.name, "got_len": raw.len(), "want_len": m.source.len(), "text_offset": m.text_offset}));
                return;
            }
            Err(e) => {
                fail(out, "c18|module_raw|error".into(), json!(e.to_string()));
                return;
            }
        }
        match v.get_module(&m.name) {
            Ok(t) if t == decode_cp(&m.source, p.codepage) => {}
            Ok(_) => {
                fail(out, format!("c18|module_text|cp{}", p.codepage), json!({"module": m.name}));
                return;
            }
            Err(e) => {
                fail(out, "c18|module_text|error".into(), json!(e.to_string()));
                return;
            }
        }
    }
    if v.get_module_raw("no such module").is_ok() {
        fail(out, "c18|unknown_module_found".into(), json!(null));
    }
    let rn: Vec<&str> = v.get_references().iter().map(|r| r.name.as_str()).collect();
    let wn: Vec<&str> = p.references.iter().map(|r| r.name.as_str()).collect();
    if rn != wn {
        fail(out, "c18|references".into(), json!({"got": rn, "want": wn}));
    }
}

impl Prop for C18 {
    fn id(&self) -> &'static str {
        "C18"
    }
    fn rule(&self) -> String {
        "module sources of 0..several chunks (0, 1, 4095..4097, 3x4096+k bytes; low and high redundancy, incompressible) compressed by an independent MS-OVBA compressor under five strategies (literal-only, greedy, random tokenisation with overlapping and maximal-length copies, raw chunks, mixtures) and decompressed through the decompress_stream hook; whole projects (1..7 modules, procedural/document, read-only/private, text offsets 0..1999, code pages 1252/1251/932/65001, registered/project/control/original references) embedded as xlsm part, xlsb part and xls storage and read through vba_project(). Non-trivial = non-empty source; distinct by hash of the container.".into()
    }
    fn assumptions(&self) -> Vec<String> {
        vec![
            "trusted base: the MS-OVBA reference compressor (self-checked against its own reference decompressor on every case) and dir-stream writer".into(),
            "encoding_rs is trusted for the code-page decoding of module text".into(),
        ]
    }
    fn units(&self, tier: Tier) -> u64 {
        tier.pick(16, 160)
    }
    fn mandatory(&self, _t: Tier) -> Vec<String> {
        let mut v: Vec<String> = ["strategy:Literal", "strategy:Greedy", "strategy:Random", "strategy:Raw", "strategy:Mixed", "chunks:0", "chunks:1", "chunks:>1", "overlapping_copy", "max_length_copy", "raw_chunk", "chunk_end_on_full_flag_group", "container:xlsm", "container:xlsb", "container:xls", "stream_names:rotated", "cp:437", "cp:1252", "cp:1251", "cp:932", "cp:65001"]
            .iter().map(|s| s.to_string()).collect();
        for b in 4..=12 {
            v.push(format!("copy_token_offset_bits:{}", b));
        }
        v
    }
    fn run_unit(&self, ctx: &Ctx, unit: u64, out: &mut UnitResult) {
        let mut rng = Rng::derive(ctx.seed, "c18", unit);
        direct(&mut rng, out, ctx.tier.pick(400, 4000));
        for i in 0..ctx.tier.pick(12, 60) {
            let p = gen_project(&mut rng);
            out.feat(&format!("cp:{}", p.codepage));
            let strat = *rng.pick(&ovba::STRATEGIES);
            let mut st = Stats::default();
            let mut book = MBook::default();
            book.xfs = crate::gen::basic_xfs();
            let mut sh = MSheet::new("Sheet1");
            sh.cells.insert((0, 0), MCell::v(Val::Num(1.0)));
            book.sheets.push(sh);
            let ctxj = json!({"unit": unit, "project": i, "codepage": p.codepage, "strategy": format!("{:?}", strat), "modules": p.modules.iter().map(|m| (m.name.clone(), m.source.len(), m.text_offset)).collect::<Vec<_>>()});
            if out.samples.len() < 2 {
                out.sample(ctxj.clone());
            }
            let which = i % 3;
            // every third project stores its modules in streams named differently from the modules
            let differ = i % 3 == 2;
            ovba::STREAM_NAMES_DIFFER.with(|c| c.set(differ));
            if differ {
                out.feat(if p.modules.len() > 1 { "stream_names:rotated" } else { "stream_names:renamed" });
            }
            let entries = ovba::project_entries(&p, strat, if which == 2 { Some("_VBA_PROJECT_CUR") } else { None }, &mut rng, &mut st);
            ovba::STREAM_NAMES_DIFFER.with(|c| c.set(false));
            if st.unencodable {
                out.sum("unencodable_sources_skipped", 1);
                continue;
            }
            match which {
                0 | 1 => {
                    let bin = cfb::build(&entries, &CfbChoices::random(&mut rng), &mut rng).bytes;
                    if which == 0 {
                        out.feat("container:xlsm");
                        let mut ch = XlsxChoices::default();
                        ch.vba = Some(bin);
                        let enc = crate::enc::xlsx::encode(&book, &ch, &mut rng);
                        let r = guard(|| Xlsx::new(Cursor::new(enc.bytes.clone())).ok().and_then(|mut w| w.vba_project().map(|r| r.map(|c| c.into_owned()).map_err(|e| format!("{:?}", e)))));
                        match r {
                            Ok(v) => check_project(&p, v, "xlsm", out, &ctxj, &enc.bytes),
                            Err(f) => out.fail(format!("c18|project|fault:{}", f.class), json!({"ctx": ctxj, "input_hex": hex(&enc.bytes)})),
                        }
                    } else {
                        out.feat("container:xlsb");
                        let mut ch = XlsbChoices::default();
                        ch.vba = Some(bin);
                        let enc = crate::enc::xlsb::encode(&book, &ch, &XlsbExtra::default(), &mut rng);
                        let r = guard(|| Xlsb::new(Cursor::new(enc.bytes.clone())).ok().and_then(|mut w| w.vba_project().map(|r| r.map(|c| c.into_owned()).map_err(|e| format!("{:?}", e)))));
                        match r {
                            Ok(v) => check_project(&p, v, "xlsb", out, &ctxj, &enc.bytes),
                            Err(f) => out.fail(format!("c18|project|fault:{}", f.class), json!({"ctx": ctxj, "input_hex": hex(&enc.bytes)})),
                        }
                    }
                }
                _ => {
                    out.feat("container:xls");
                    let (bytes, _) = crate::enc::xls_file(&book, &BiffChoices::default(), &BiffExtra::default(), &CfbChoices::random(&mut rng), &entries, &mut rng);
                    let r = guard(|| match Xls::new(Cursor::new(bytes.clone())) {
                        Ok(mut w) => w.vba_project().map(|r| r.map(|c| c.into_owned()).map_err(|e| format!("{:?}", e))),
                        Err(e) => Some(Err(format!("open: {:?}", e))),
                    });
                    match r {
                        Ok(v) => check_project(&p, v, "xls", out, &ctxj, &bytes),
                        Err(f) => out.fail(format!("c18|project|fault:{}", f.class), json!({"ctx": ctxj, "input_hex": hex(&bytes)})),
                    }
                }
            }
            record_stats(&st, out);
            out.case(Some(rng.next_u64()));
        }
    }
}
