//! C19 — cell text survives every storage form and escaping layer unchanged.

use crate::core::*;
use crate::enc::biff8::{BiffChoices, BiffExtra, StrForm as XlsForm};
use crate::enc::cfb::CfbChoices;
use crate::enc::ods::{self, OdsChoices};
use crate::enc::xlsb::{self, XlsbChoices, XlsbExtra};
use crate::enc::xlsx::{self, XlsxChoices, ALL_FORMS};
use crate::enc::xml;
use crate::model::*;
use crate::monitor::guard;
use crate::prng::{hash_bytes, Rng};
use calamine::{Data, Ods, Reader, ReaderRef, Xls, Xlsb, Xlsx};
use serde_json::json;
use std::io::Cursor;

pub struct C19;

const CLASSES: [&str; 11] = ["ascii", "xml_special", "spaces", "tab_lf", "cr", "combining", "latin1_c1", "bmp", "astral", "long", "mixed"];

fn gen_string(rng: &mut Rng, class: &str, serial: u64, fmt: &str) -> String {
    let tag = format!("[{}]", serial);
    let body: String = match class {
        "ascii" => "plain ASCII text 123".into(),
        "xml_special" => "a & b < c > d \" e ' f &amp; &#65; <![CDATA[x]]> ]]>".into(),
        "spaces" => format!("{}lead  two   three{}", " ".repeat(1 + rng.usize(3)), " ".repeat(1 + rng.usize(3))),
        "tab_lf" => rng.pick(&["col1\tcol2\nline2\n\nline4", "\nafter an empty first line", "trailing newline\n", "\n\ntwo empty lines first", "\t\tx"]).to_string(),
        "cr" => "mac\rline\r\nwin".into(),
        "combining" => "e\u{301}a\u{308}\u{323} n\u{303}".into(),
        // Latin-1 text only (8-bit storage in xls): C1 controls, and letter pairs whose bytes
        // would also be well-formed UTF-8 (Ã© = C3 A9, Â£ = C2 A3)
        "latin1_c1" => "a\u{80}b\u{85}c\u{99}d\u{9f} Caf\u{c3}\u{a9} 20 \u{c2}\u{b0}C \u{c2}\u{a3}".into(),
        "bmp" => "éÿ Ωж 日本語 ﷺ \u{FFFD} €".into(),
        "astral" => "😀𝄞𐍈 \u{10FFFF} x\u{1F468}\u{200D}\u{1F469}".into(),
        "long" => {
            let n = *rng.pick(&[255usize, 256, 1000, 8000, 32_000, 32_762, 32_763, 32_765, 32_766, 32_767]);
            let unit = ["ab", "é日", "x "][rng.usize(3)];
            unit.repeat(n / unit.chars().count() + 1).chars().take(n).collect()
        }
        _ => {
            let pool = ['a', ' ', '&', '<', 'é', '日', '😀', '\t', '\n', '"', '\'', '>', ' ', 'z'];
            (0..1 + rng.usize(40)).map(|_| *rng.pick(&pool)).collect()
        }
    };
    // the unique tag goes in front or at the end (so that the text can start with any character)
    let mut s = if rng.bool() { format!("{}{}", tag, body) } else { format!("{}{}", body, tag) };
    if fmt == "ods" {
        // text:tab / text:line-break are outside the statement; paragraphs are joined by "\n"
        s = s.replace(['\t', '\r'], "_");
    }
    s
}

fn class_of(i: usize) -> &'static str {
    CLASSES[i % CLASSES.len()]
}

fn check_cells(fmt: &str, got: &calamine::Range<Data>, strings: &[(String, &'static str)], forms: &dyn Fn(usize) -> String, out: &mut UnitResult, ctxj: &serde_json::Value, bytes: &[u8]) -> bool {
    for (i, (s, class)) in strings.iter().enumerate() {
        out.sum("strings_compared", 1);
        let g = got.get_value((i as u32, 0));
        if g != Some(&Data::String(s.clone())) {
            let sym = match g {
                Some(Data::String(t)) if t.chars().count() != s.chars().count() => "length",
                Some(Data::String(_)) => "content",
                Some(Data::Empty) | None => "missing",
                _ => "type",
            };
            let mut j = json!({"ctx": ctxj, "index": i, "got": format!("{:?}", g).chars().take(300).collect::<String>(), "want": s.chars().take(300).collect::<String>()});
            if bytes.len() < 300_000 {
                j["input_hex"] = json!(hex(bytes));
            }
            out.fail(format!("c19|{}|{}|{}|{}", fmt, forms(i), sym, class), j);
            return false;
        }
    }
    if got.used_cells().count() != strings.len() {
        out.fail(format!("c19|{}|extra_cells", fmt), json!({"ctx": ctxj}));
        return false;
    }
    true
}

fn one(rng: &mut Rng, fmt: &str, out: &mut UnitResult, ctxj: serde_json::Value, serial: &mut u64) {
    let n = 6 + rng.usize(10);
    let off = rng.usize(CLASSES.len());
    let strings: Vec<(String, &'static str)> = (0..n)
        .map(|i| {
            *serial += 1;
            let c = class_of(i + off);
            out.feat(&format!("class:{}", c));
            (gen_string(rng, c, *serial, fmt), c)
        })
        .collect();
    // BIFF records hold at most 8224 bytes: LABEL / STRING values stay below 4000 characters
    // (longer texts live in the shared-string table, which CONTINUE records extend)
    let xls_label = fmt == "xls" && rng.chance(1, 3);
    let strings: Vec<(String, &'static str)> = strings
        .into_iter()
        .map(|(s, c)| if xls_label && s.chars().count() > 4000 { (s.chars().take(4000).collect(), c) } else { (s, c) })
        .collect();
    let mut book = MBook { xfs: crate::gen::basic_xfs(), ..Default::default() };
    let mut sh = MSheet::new("Strings");
    for (i, (s, _)) in strings.iter().enumerate() {
        let mut c = MCell::v(Val::Str(s.clone()));
        // formula string results
        if rng.chance(1, 5) && !(fmt == "xls" && s.chars().count() > 4000) {
            c.formula = Some(if fmt == "ods" { "of:=\"x\"".into() } else { "A1&\"x\"".into() });
        }
        sh.cells.insert((i as u32, 0), c);
    }
    book.sheets.push(sh);
    macro_rules! open_read {
        ($t:ty, $bytes:expr) => {{
            match guard(|| <$t>::new(Cursor::new($bytes.clone())).map(|mut w| w.worksheet_range("Strings"))) {
                Ok(Ok(Ok(r))) => r,
                Ok(Ok(Err(e))) => {
                    out.fail(format!("c19|{}|read_error|{}", fmt, super::c01::err_variant(&e)), json!({"ctx": ctxj, "err": format!("{:?}", e), "input_hex": hex(&$bytes)}));
                    return;
                }
                Ok(Err(e)) => {
                    out.fail(format!("c19|{}|open_error|{}", fmt, super::c01::err_variant(&e)), json!({"ctx": ctxj, "err": format!("{:?}", e), "input_hex": hex(&$bytes)}));
                    return;
                }
                Err(f) => {
                    out.fail(format!("c19|{}|fault:{}", fmt, f.class), json!({"ctx": ctxj, "input_hex": hex(&$bytes)}));
                    return;
                }
            }
        }};
    }
    match fmt {
        "xlsx" => {
            let mut ch = XlsxChoices::random(rng);
            ch.forms = vec![*rng.pick(&ALL_FORMS), *rng.pick(&ALL_FORMS)];
            ch.text_mode = *rng.pick(&xml::TEXT_MODES);
            ch.sst_noise = rng.bool();
            out.feat(&format!("xlsx:text:{:?}", ch.text_mode));
            if ch.sst_noise {
                out.feat("xlsx:sst_noise");
            }
            let enc = xlsx::encode(&book, &ch, rng);
            for f in enc.cell_feats.values() {
                out.feat(&format!("xlsx:{}", f.trim_end_matches("+f")));
            }
            for (k, v) in &enc.counts {
                if k.starts_with("sst_item") {
                    out.feat_n(&format!("xlsx:{}", k), *v);
                }
            }
            let r = open_read!(Xlsx<_>, enc.bytes);
            let tm = format!("{:?}", ch.text_mode);
            if !check_cells(fmt, &r, &strings, &|i| format!("{}|{}", enc.cell_feats.get(&(0, (i as u32, 0))).cloned().unwrap_or_default(), tm), out, &ctxj, &enc.bytes) {
                return;
            }
            // the borrowed-string path
            let rr = guard(|| Xlsx::new(Cursor::new(enc.bytes.clone())).ok().and_then(|mut w| w.worksheet_range_ref("Strings").ok().map(|r| r.cells().map(|(_, _, v)| Data::from(v.clone())).collect::<Vec<_>>())));
            match rr {
                Ok(Some(cells)) if cells.iter().zip(r.cells()).all(|(a, b)| a == b.2) => {}
                _ => out.fail("c19|xlsx|range_ref_differs".to_string(), json!({"ctx": ctxj, "input_hex": hex(&enc.bytes)})),
            }
            out.case(Some(hash_bytes(&enc.bytes)));
        }
        "xlsb" => {
            let mut ch = XlsbChoices::random(rng);
            ch.big_noise = false;
            let enc = xlsb::encode(&book, &ch, &XlsbExtra::default(), rng);
            for f in enc.cell_feats.values() {
                out.feat(&format!("xlsb:{}", f));
            }
            if enc.counts.contains_key("sst:rich") {
                out.feat("xlsb:sst_rich");
            }
            let r = open_read!(Xlsb<_>, enc.bytes);
            check_cells(fmt, &r, &strings, &|i| enc.cell_feats.get(&(0, (i as u32, 0))).cloned().unwrap_or_default(), out, &ctxj, &enc.bytes);
            out.case(Some(hash_bytes(&enc.bytes)));
        }
        "xls" => {
            let mut bc = BiffChoices::random(rng);
            bc.sst_plan.random_pct = *rng.pick(&[0, 0, 3]);
            bc.str_form = if xls_label { XlsForm::Label } else { XlsForm::LabelSst };
            let (bytes, enc) = crate::enc::xls_file(&book, &bc, &BiffExtra::default(), &CfbChoices::default(), &[], rng);
            for f in enc.cell_feats.values() {
                out.feat(&format!("xls:{}", f));
            }
            out.feat(if bc.force_wide { "xls:16bit_forced" } else { "xls:8bit_when_possible" });
            let r = open_read!(Xls<_>, bytes);
            check_cells(fmt, &r, &strings, &|i| format!("{}|{}", enc.cell_feats.get(&(0, (i as u32, 0))).cloned().unwrap_or_default(), if bc.force_wide { "16bit" } else { "auto" }), out, &ctxj, &bytes);
            out.case(Some(hash_bytes(&bytes)));
        }
        _ => {
            let ch = OdsChoices::random(rng);
            let enc = ods::encode(&book, &ch, rng);
            for (k, v) in &enc.counts {
                if k.starts_with("str:") || k == "text:s" {
                    out.feat_n(&format!("ods:{}", k), *v);
                }
            }
            let r = open_read!(Ods<_>, enc.bytes);
            check_cells(fmt, &r, &strings, &|_| format!("{}|{:?}", if ch.text_content { "text:p" } else { "string-value" }, ch.text_mode), out, &ctxj, &enc.bytes);
            out.case(Some(hash_bytes(&enc.bytes)));
        }
    }
}

impl Prop for C19 {
    fn id(&self) -> &'static str {
        "C19"
    }
    fn rule(&self) -> String {
        "strings of ten classes (ASCII, XML specials incl. literal entity/CDATA look-alikes, leading/trailing/repeated spaces, tab+LF, CR, combining marks, BMP, astral incl. U+10FFFF and ZWJ sequences, lengths 255..32000, random mixtures), each uniquely tagged, stored in every form of every format: xlsx shared/inline/t=str x plain/rich runs/phonetic x entities/numeric references/CDATA/mixed, with empty and unused shared-string items interleaved; xlsb BrtCellIsst (plain/rich/phonetic items) / BrtCellSt / BrtFmlaString; xls LABELSST (random CONTINUE cuts) / LABEL / FORMULA+STRING in 8- and 16-bit storage; ods string-value vs text:p with text:s, several paragraphs and text:span runs. Distinct by hash of the file.".into()
    }
    fn assumptions(&self) -> Vec<String> {
        vec![
            "trusted base: the four reference encoders".into(),
            "cells whose whole text is empty are not asserted here (C01 covers xlsx); _xHHHH_ escapes, text:tab and text:line-break are outside the statement (ods strings contain no tab / CR)".into(),
        ]
    }
    fn units(&self, tier: Tier) -> u64 {
        tier.pick(16, 160)
    }
    fn mandatory(&self, _t: Tier) -> Vec<String> {
        let mut v: Vec<String> = CLASSES.iter().map(|c| format!("class:{}", c)).collect();
        for f in ["xlsx:str:SharedPlain", "xlsx:str:SharedRich", "xlsx:str:SharedPhonetic", "xlsx:str:SharedRichPhonetic", "xlsx:str:InlinePlain", "xlsx:str:InlineRich", "xlsx:str:StrV", "xlsx:text:Entities", "xlsx:text:NumRefs", "xlsx:text:CData", "xlsx:text:Mixed", "xlsx:sst_item:empty_si", "xlsx:sst_item:empty_t", "xlsb:BrtCellIsst", "xlsb:BrtCellSt", "xlsb:BrtFmlaString", "xlsb:sst_rich", "xls:str:LABELSST", "xls:str:LABEL", "xls:formula:string", "xls:16bit_forced", "xls:8bit_when_possible", "ods:str:text:p", "ods:str:string-value", "ods:str:multi_paragraph", "ods:text:s"] {
            v.push(f.to_string());
        }
        v
    }
    fn run_unit(&self, ctx: &Ctx, unit: u64, out: &mut UnitResult) {
        let mut rng = Rng::derive(ctx.seed, "c19", unit);
        let mut serial = unit * 100_000;
        for i in 0..ctx.tier.pick(60, 300) {
            let fmt = ["xlsx", "xlsb", "xls", "ods"][(i % 4) as usize];
            let cj = json!({"unit": unit, "case": i, "format": fmt});
            if out.samples.is_empty() {
                out.sample(json!({"format": fmt, "example": gen_string(&mut rng, "mixed", 0, fmt)}));
            }
            one(&mut rng, fmt, out, cj, &mut serial);
        }
    }
}
