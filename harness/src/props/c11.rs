//! C11 — serial date-times convert to the right calendar date, time and duration.
//! Oracle: independent civil-from-days algorithm on exact integer arithmetic (the f64 serial is
//! decomposed into mantissa/exponent, so the millisecond rounding is computed exactly).

use crate::core::*;
use crate::monitor::guard;
use crate::prng::Rng;
use calamine::{Data, DataRef, DataType, ExcelDateTime, ExcelDateTimeType, ToCellDeserializer};
use chrono::{Datelike, NaiveDate, NaiveDateTime, NaiveTime, Timelike};
use serde_json::json;

pub struct C11;

const MS_DAY: i128 = 86_400_000;
const MAX_DAY: u32 = 2_958_465;

/// days since 1970-01-01 -> (y, m, d)  (Hinnant's civil_from_days)
fn civil(z: i64) -> (i64, u32, u32) {
    let z = z + 719_468;
    let era = if z >= 0 { z } else { z - 146_096 } / 146_097;
    let doe = (z - era * 146_097) as u64;
    let yoe = (doe - doe / 1460 + doe / 36_524 - doe / 146_096) / 365;
    let y = yoe as i64 + era * 400;
    let doy = doe - (365 * yoe + yoe / 4 - yoe / 100);
    let mp = (5 * doy + 2) / 153;
    let d = (doy - (153 * mp + 2) / 5 + 1) as u32;
    let m = if mp < 10 { mp + 3 } else { mp - 9 } as u32;
    (if m <= 2 { y + 1 } else { y }, m, d)
}

/// exact value of `v * 86_400_000` as (floor(2x), is_integer(2x)) i.e. enough to round half away
/// from zero and to know how close to a tie the value is. Returns (lo_ms, hi_ms): the set of
/// acceptable rounded results ({r} normally, {r, r±1} within 1e-4 ms of a tie).
fn ms_candidates(v: f64) -> Option<(i128, i128)> {
    if !v.is_finite() || v.abs() > 1e13 {
        return None;
    }
    let bits = v.to_bits();
    let sign = if bits >> 63 == 1 { -1i128 } else { 1 };
    let exp = ((bits >> 52) & 0x7ff) as i32;
    let frac = (bits & 0x000f_ffff_ffff_ffff) as i128;
    let (mant, e) = if exp == 0 {
        (frac, -1074)
    } else {
        (frac | (1 << 52), exp - 1075)
    };
    // value = sign * mant * 2^e ; product = mant * MS_DAY * 2^e
    let p = mant * MS_DAY; // < 2^53 * 2^27
    let (int, rem_num, rem_den): (i128, i128, i128) = if e >= 0 {
        if e > 40 {
            return None;
        }
        (p << e, 0, 1)
    } else {
        let sh = (-e) as u32;
        if sh >= 126 {
            (0, if p == 0 { 0 } else { 1 }, i128::MAX) // tiny
        } else {
            (p >> sh, p & ((1i128 << sh) - 1), 1i128 << sh)
        }
    };
    // fractional part f = rem_num / rem_den in [0,1)
    let f = rem_num as f64 / rem_den as f64;
    let r = if f >= 0.5 { int + 1 } else { int };
    // the implementation evaluates the product in f64: one rounding of relative size 2^-53, i.e.
    // an absolute error of up to |ms| * 1.2e-16 before rounding to the millisecond; within that
    // distance (plus 1e-4 ms) of a tie both neighbouring milliseconds are acceptable
    let near_tie = (f - 0.5).abs() < 1e-4 + (int as f64) * 2.3e-16;
    let (lo, hi) = if near_tie { (int, int + 1) } else { (r, r) };
    if sign > 0 {
        Some((lo, hi))
    } else {
        Some((-hi, -lo))
    }
}

/// reference conversion: serial -> (days since 1970, ms of day) candidates
fn reference_dt(serial: f64, is_1904: bool) -> Option<(NaiveDateTime, NaiveDateTime)> {
    let f = if is_1904 { serial + 1462.0 } else { serial };
    let f = if f >= 60.0 { f } else { f + 1.0 };
    let (lo, hi) = ms_candidates(f)?;
    let conv = |ms: i128| -> Option<NaiveDateTime> {
        let days = ms.div_euclid(MS_DAY) as i64 - 25_569; // 1899-12-30 -> 1970-01-01
        let tod = ms.rem_euclid(MS_DAY) as u32;
        let (y, m, d) = civil(days);
        let date = NaiveDate::from_ymd_opt(y as i32, m, d)?;
        let time = NaiveTime::from_hms_milli_opt(tod / 3_600_000, tod / 60_000 % 60, tod / 1000 % 60, tod % 1000)?;
        Some(NaiveDateTime::new(date, time))
    };
    Some((conv(lo)?, conv(hi)?))
}

fn check_serial(serial: f64, is_1904: bool, out: &mut UnitResult, kind: &str) {
    out.feat(kind);
    let edt = ExcelDateTime::new(serial, ExcelDateTimeType::DateTime, is_1904);
    let got = match guard(|| edt.as_datetime()) {
        Ok(g) => g,
        Err(f) => {
            out.fail(format!("c11|as_datetime|fault:{}", f.class), json!({"serial": serial, "is_1904": is_1904}));
            return;
        }
    };
    let sys = if is_1904 { "1904" } else { "1900" };
    let eff = if is_1904 { serial + 1462.0 } else { serial };
    let fictitious = (60.0..61.0).contains(&eff);
    match reference_dt(serial, is_1904) {
        Some((lo, hi)) => match got {
            Some(g) => {
                if !(g >= lo && g <= hi) && !fictitious {
                    let sym = if g.date() != lo.date() && g.date() != hi.date() { "date" } else { "time" };
                    out.fail(
                        format!("c11|as_datetime|{}|{}|{}", sys, kind, sym),
                        json!({"serial": serial, "is_1904": is_1904, "got": g.to_string(), "want": lo.to_string()}),
                    );
                }
                if fictitious {
                    // weak monotonicity around the fictitious 1900-02-29
                    let a = NaiveDate::from_ymd_opt(1900, 2, 28).unwrap().and_hms_opt(0, 0, 0).unwrap();
                    let b = NaiveDate::from_ymd_opt(1900, 3, 1).unwrap().and_hms_opt(0, 0, 0).unwrap();
                    if g < a || g > b {
                        out.fail(format!("c11|as_datetime|{}|fictitious_day_range", sys), json!({"serial": serial, "got": g.to_string()}));
                    }
                }
                // components
                let d = Data::DateTime(edt);
                let (ad, at, adt) = match guard(|| (d.as_date(), d.as_time(), d.as_datetime())) {
                    Ok(x) => x,
                    Err(f) => {
                        out.fail(format!("c11|components|fault:{}", f.class), json!({"serial": serial}));
                        return;
                    }
                };
                if adt != Some(g) || ad != Some(g.date()) || at != Some(g.time()) {
                    out.fail(format!("c11|components|{}", sys), json!({"serial": serial, "as_date": format!("{:?}", ad), "as_time": format!("{:?}", at), "as_datetime": g.to_string()}));
                }
                let r = DataRef::DateTime(edt);
                if r.as_datetime() != Some(g) || r.as_date() != Some(g.date()) || r.as_time() != Some(g.time()) {
                    out.fail(format!("c11|components_ref|{}", sys), json!({"serial": serial}));
                }
            }
            None => {
                out.fail(format!("c11|as_datetime|{}|{}|none_in_span", sys, kind), json!({"serial": serial, "is_1904": is_1904, "want": lo.to_string()}));
            }
        },
        None => {
            // beyond the representable calendar (or not finite): None, or at least never a panic;
            // a Some(..) for |serial| > 1e13 days cannot be a right date
            if got.is_some() && (serial.is_nan() || serial.abs() > 1e13) {
                out.fail(format!("c11|as_datetime|{}|some_beyond_calendar", sys), json!({"serial": serial, "got": format!("{:?}", got)}));
            }
        }
    }
    out.sum("conversions", 1);
}

fn check_duration(serial: f64, out: &mut UnitResult) {
    let edt = ExcelDateTime::new(serial, ExcelDateTimeType::TimeDelta, false);
    let got = match guard(|| edt.as_duration()) {
        Ok(g) => g,
        Err(f) => {
            out.fail(format!("c11|as_duration|fault:{}", f.class), json!({"serial": serial}));
            return;
        }
    };
    out.feat("duration");
    if serial.is_nan() {
        if got.is_some() {
            out.fail("c11|as_duration|some_for_nan", json!({"serial": "NaN"}));
        }
        return;
    }
    if !serial.is_finite() || serial.abs() > 1.1e11 {
        // beyond chrono's +-i64::MAX ms: a value cannot be right
        if got.is_some() {
            out.fail("c11|as_duration|some_beyond_span", json!({"serial": serial, "got": format!("{:?}", got)}));
        }
        return;
    }
    if let Some((lo, hi)) = ms_candidates(serial) {
        match got {
            Some(d) => {
                let ms = d.num_milliseconds() as i128;
                if ms < lo || ms > hi {
                    out.fail("c11|as_duration|value", json!({"serial": serial, "got_ms": ms as i64, "want_ms": lo as i64}));
                }
                let dd = Data::DateTime(edt);
                if dd.as_duration() != Some(d) || DataRef::DateTime(edt).as_duration() != Some(d) {
                    out.fail("c11|as_duration|datatype_disagrees", json!({"serial": serial}));
                }
            }
            // chrono::Duration spans +-i64::MAX ms (about 1.07e11 days)
            None if serial.abs() < 1.0e11 => out.fail("c11|as_duration|none_in_span", json!({"serial": serial})),
            None => {}
        }
    }
}

fn check_plain(serial: f64, out: &mut UnitResult) {
    // plain Int/Float cells convert like 1900-system date-times
    let Ok(want) = guard(|| ExcelDateTime::new(serial, ExcelDateTimeType::DateTime, false).as_datetime()) else {
        return; // already reported by check_serial
    };
    let f = Data::Float(serial);
    let r = guard(|| (f.as_datetime(), f.as_date(), f.as_time(), DataRef::Float(serial).as_datetime()));
    match r {
        Ok((dt, d, t, rdt)) => {
            if dt != want || rdt != want || d != want.map(|x| x.date()) || t != want.map(|x| x.time()) {
                out.fail("c11|plain_float", json!({"serial": serial}));
            }
        }
        Err(fl) => out.fail(format!("c11|plain_float|fault:{}", fl.class), json!({"serial": serial})),
    }
    if serial.fract() == 0.0 && serial.abs() < 1e15 {
        let i = Data::Int(serial as i64);
        match guard(|| (i.as_datetime(), DataRef::Int(serial as i64).as_datetime())) {
            Ok((a, b)) => {
                if a != want || b != want {
                    out.fail("c11|plain_int", json!({"serial": serial}));
                }
            }
            Err(fl) => out.fail(format!("c11|plain_int|fault:{}", fl.class), json!({"serial": serial})),
        }
        out.feat("plain_int");
    }
    // serde helpers
    let pos = (0, 0);
    let h = guard(|| {
        (
            calamine::deserialize_as_datetime_or_none(f.to_cell_deserializer(pos)).ok().flatten(),
            calamine::deserialize_as_date_or_none(f.to_cell_deserializer(pos)).ok().flatten(),
            calamine::deserialize_as_time_or_none(f.to_cell_deserializer(pos)).ok().flatten(),
            calamine::deserialize_as_datetime_or_string(f.to_cell_deserializer(pos)).ok(),
        )
    });
    match h {
        Ok((dt, d, t, ds)) => {
            let ds_ok = match (&ds, want) {
                (Some(Ok(x)), Some(w)) => *x == w,
                (Some(Err(s)), None) => *s == f.to_string(),
                _ => false,
            };
            if dt != want || d != want.map(|x| x.date()) || t != want.map(|x| x.time()) || !ds_ok {
                out.fail("c11|serde_helpers", json!({"serial": serial}));
            }
        }
        Err(fl) => out.fail(format!("c11|serde_helpers|fault:{}", fl.class), json!({"serial": serial})),
    }
    out.feat("plain_float");
}

fn check_iso(rng: &mut Rng, out: &mut UnitResult) {
    let y = rng.range(1900, 9999) as i32;
    let m = rng.range(1, 12) as u32;
    let d = rng.range(1, 28) as u32;
    let (hh, mm, ss) = (rng.range(0, 23) as u32, rng.range(0, 59) as u32, rng.range(0, 59) as u32);
    let date = NaiveDate::from_ymd_opt(y, m, d).unwrap();
    // optional fractional seconds (1..=9 digits)
    let (frac_txt, nanos) = if rng.bool() {
        let digits = 1 + rng.usize(9);
        let v = rng.range(0, 10i64.pow(digits as u32) - 1) as u64;
        (format!(".{:0w$}", v, w = digits), (v * 10u64.pow(9 - digits as u32)) as u32)
    } else {
        (String::new(), 0)
    };
    if nanos > 0 {
        out.feat("iso_fractional_seconds");
    }
    let time = NaiveTime::from_hms_nano_opt(hh, mm, ss, nanos).unwrap();
    let full = Data::DateTimeIso(format!("{:04}-{:02}-{:02}T{:02}:{:02}:{:02}{}", y, m, d, hh, mm, ss, frac_txt));
    let donly = Data::DateTimeIso(format!("{:04}-{:02}-{:02}", y, m, d));
    let tonly = Data::DateTimeIso(format!("{:02}:{:02}:{:02}{}", hh, mm, ss, frac_txt));
    let dur = Data::DurationIso(format!("PT{:02}H{:02}M{:02}S", hh, mm, ss));
    let r = guard(|| {
        (
            full.as_datetime(),
            full.as_date(),
            full.as_time(),
            donly.as_date(),
            tonly.as_time(),
            dur.as_time(),
            dur.as_duration(),
        )
    });
    match r {
        Ok((a, b, c, dd, tt, dt, dd2)) => {
            let secs = (hh * 3600 + mm * 60 + ss) as i64;
            if a != Some(NaiveDateTime::new(date, time)) || b != Some(date) || c != Some(time) || dd != Some(date) || tt != Some(time) || dt != Some(NaiveTime::from_hms_opt(hh, mm, ss).unwrap()) || dd2 != Some(chrono::Duration::seconds(secs)) {
                out.fail("c11|iso_strings", json!({"iso": full.to_string()}));
            }
        }
        Err(f) => out.fail(format!("c11|iso_strings|fault:{}", f.class), json!({"iso": full.to_string()})),
    }
    out.feat("iso");
}

const DAY_UNITS: u64 = 16;

/// End to end: date-styled numeric cells of generated xlsx / xlsb / xls workbooks in both date
/// systems and every numeric cell encoding (incl. formula cells with a cached number) are read
/// back and converted; the calendar date must be the one the *workbook's* date system gives.
fn end_to_end(rng: &mut Rng, out: &mut UnitResult, unit: u64, i: u64) {
    use crate::model::*;
    use calamine::Reader;
    use std::io::Cursor;
    let date1904 = rng.bool();
    let mut book = MBook { xfs: crate::gen::basic_xfs(), date1904, ..Default::default() };
    let mut sh = MSheet::new("Dates");
    let mut want: Vec<(Pos, f64)> = vec![];
    for r in 0..12u32 {
        for c in 0..3u32 {
            let v = match rng.below(4) {
                0 => rng.range(0, 70) as f64,
                1 => rng.range(30_000, 50_000) as f64,
                2 => rng.range(30_000, 50_000) as f64 + 0.25,
                _ => rng.range(1, 60_000) as f64 + rng.range(0, 86_399) as f64 / 86_400.0,
            };
            // xf 2 and 3 of basic_xfs are date formats (built-in 14 and a custom one)
            let mut cell = MCell { val: Val::Num(v), xf: Some(2 + rng.usize(2)), formula: None };
            if rng.chance(1, 4) {
                cell.formula = Some("A1+1".into());
            }
            sh.cells.insert((r, c), cell);
            want.push(((r, c), v));
        }
    }
    book.sheets.push(sh);
    let files: Vec<(&str, Vec<u8>)> = vec![
        ("xlsx", crate::enc::xlsx::encode(&book, &crate::enc::xlsx::XlsxChoices::random(rng), rng).bytes),
        ("xlsb", {
            let mut ch = crate::enc::xlsb::XlsbChoices::random(rng);
            ch.big_noise = false;
            crate::enc::xlsb::encode(&book, &ch, &Default::default(), rng).bytes
        }),
        ("xls", crate::enc::xls_file(&book, &crate::enc::biff8::BiffChoices::random(rng), &Default::default(), &Default::default(), &[], rng).0),
    ];
    for (fmt, bytes) in files {
        out.feat(&format!("end_to_end:{}:{}", fmt, if date1904 { "1904" } else { "1900" }));
        let range = guard(|| -> Result<calamine::Range<Data>, String> {
            match fmt {
                "xlsx" => calamine::Xlsx::new(Cursor::new(bytes.clone())).map_err(|e| e.to_string())?.worksheet_range("Dates").map_err(|e| e.to_string()),
                "xlsb" => calamine::Xlsb::new(Cursor::new(bytes.clone())).map_err(|e| e.to_string())?.worksheet_range("Dates").map_err(|e| e.to_string()),
                _ => calamine::Xls::new(Cursor::new(bytes.clone())).map_err(|e| e.to_string())?.worksheet_range("Dates").map_err(|e| e.to_string()),
            }
        });
        let ctx = json!({"unit": unit, "case": i, "format": fmt, "date1904": date1904, "input_hex": hex(&bytes)});
        let range = match range {
            Ok(Ok(r)) => r,
            Ok(Err(e)) => {
                out.fail(format!("c11|end_to_end|{}|read_error", fmt), json!({"ctx": ctx, "err": e}));
                continue;
            }
            Err(f) => {
                out.fail(format!("c11|end_to_end|{}|fault:{}", fmt, f.class), ctx);
                continue;
            }
        };
        for (p, v) in &want {
            let Some(cell) = range.get_value(*p) else {
                out.fail(format!("c11|end_to_end|{}|cell_missing", fmt), json!({"ctx": ctx, "cell": a1(*p)}));
                break;
            };
            let got = guard(|| cell.as_datetime());
            let eff = if date1904 { v + 1462.0 } else { *v };
            if (60.0..61.0).contains(&eff) {
                continue;
            }
            match (got, reference_dt(*v, date1904)) {
                (Ok(Some(g)), Some((lo, hi))) if g >= lo && g <= hi => out.sum("end_to_end_conversions", 1),
                (Ok(g), w) => {
                    out.fail(
                        format!("c11|end_to_end|{}|{}|date", fmt, if date1904 { "1904" } else { "1900" }),
                        json!({"ctx": ctx, "cell": a1(*p), "serial": v, "cell_read": format!("{:?}", cell), "got": format!("{:?}", g), "want": format!("{:?}", w.map(|x| x.0))}),
                    );
                    break;
                }
                (Err(f), _) => {
                    out.fail(format!("c11|end_to_end|{}|fault:{}", fmt, f.class), ctx.clone());
                    break;
                }
            }
        }
        out.case(Some(crate::prng::hash_bytes(&bytes)));
    }
}

impl Prop for C11 {
    fn id(&self) -> &'static str {
        "C11"
    }
    fn rule(&self) -> String {
        "every whole-day serial 0..=2958465 in both date systems (exhaustive), fractional serials k/86400000 +- eps at millisecond/second/day boundaries and the .9995 rounding edge on sampled days, the specials {-1e20,-inf,+inf,NaN,1e20,-1,-0.0,59.x,60.x,61}, durations, plain Int/Float cells, DataRef, ISO strings and the deserialize_as_* helpers; each conversion compared with an exact-arithmetic civil-from-days reference. distinct_nontrivial counts distinct (serial, system) pairs (by construction for the exhaustive part, by hash for the sampled part).".into()
    }
    fn assumptions(&self) -> Vec<String> {
        vec![
            "serials in [60,61) (the fictitious 1900-02-29) only have to fall within 1900-02-28..=1900-03-01".into(),
            "within 1e-4 ms of a rounding tie both neighbouring milliseconds are accepted".into(),
            "negative serials only have to not panic; NaN and |serial| > 1e13 must give None for dates, NaN and |serial| > 1.1e11 None for durations".into(),
            "chrono 0.4.45 is trusted for NaiveDate construction from (y, m, d) and comparison".into(),
        ]
    }
    fn units(&self, tier: Tier) -> u64 {
        DAY_UNITS + tier.pick(16, 160)
    }
    fn exhaustive(&self, _t: Tier) -> Option<String> {
        Some("every whole-day serial 0..=2958465 in the 1900 and the 1904 system".into())
    }
    fn mandatory(&self, _t: Tier) -> Vec<String> {
        ["whole_day", "frac_ms", "frac_day_edge", "special", "duration", "plain_float", "plain_int", "iso", "monotone_pair", "iso_fractional_seconds", "end_to_end:xlsx:1900", "end_to_end:xlsx:1904", "end_to_end:xlsb:1900", "end_to_end:xlsb:1904", "end_to_end:xls:1900", "end_to_end:xls:1904"]
            .iter().map(|s| s.to_string()).collect()
    }
    fn run_unit(&self, ctx: &Ctx, unit: u64, out: &mut UnitResult) {
        if unit < DAY_UNITS {
            let per = (MAX_DAY as u64 + 1).div_ceil(DAY_UNITS);
            let lo = unit * per;
            let hi = ((unit + 1) * per).min(MAX_DAY as u64 + 1);
            let mut prev = [None, None];
            for s in lo..hi {
                for (k, sys) in [false, true].iter().enumerate() {
                    check_serial(s as f64, *sys, out, "whole_day");
                    // strict monotonicity over consecutive whole days (except around 60)
                    let cur = ExcelDateTime::new(s as f64, ExcelDateTimeType::DateTime, *sys).as_datetime();
                    if let (Some(p), Some(c)) = (prev[k], cur) {
                        let eff = s + if *sys { 1462 } else { 0 };
                        let strict = eff != 60 && eff != 61;
                        if c < p || (strict && c == p) {
                            out.fail("c11|monotone|whole_days", json!({"serial": s, "is_1904": sys}));
                        }
                    }
                    prev[k] = cur;
                }
                out.evals += 2;
            }
            out.distinct_by_construction += 2 * (hi - lo);
            out.sample(json!({"whole_days": [lo, hi], "systems": ["1900", "1904"]}));
            if unit == 0 {
                for s in [-1e20, f64::NEG_INFINITY, f64::INFINITY, f64::NAN, 1e20, -1.0, -0.0, 59.25, 59.999999, 60.0, 60.5, 61.0, 2958465.999, 2958466.0, 1e13, 1e14, -1e13, -1.07e11, -1.08e11, 1.06e11, 1.07e11] {
                    for sys in [false, true] {
                        check_serial(s, sys, out, "special");
                        out.case(Some(s.to_bits() ^ sys as u64));
                    }
                    check_duration(s, out);
                    check_plain(s, out);
                }
            }
            return;
        }
        let mut rng = Rng::derive(ctx.seed, "c11", unit);
        for i in 0..ctx.tier.pick(3, 12) {
            end_to_end(&mut rng, out, unit, i);
        }
        let n = ctx.tier.pick(700, 7000);
        for _ in 0..n {
            let day = match rng.below(6) {
                0 => rng.range(0, 70),
                1 => rng.range(1400, 1530),
                2 => rng.range(2_958_000, 2_958_465),
                _ => rng.range(0, MAX_DAY as i64),
            } as f64;
            let sys = rng.bool();
            let mut serials = vec![];
            // millisecond boundaries
            let k = rng.range(0, 86_399_999) as f64;
            for eps in [-0.4, 0.0, 0.4] {
                serials.push((day + (k + eps) / 86_400_000.0, "frac_ms"));
            }
            // second boundary and day edges incl. the .9995 rounding edge
            let sec = rng.range(0, 86_399) as f64;
            serials.push((day + sec / 86_400.0, "frac_sec"));
            for e in [0.9999999, 0.99999999421, 0.9999999942, 0.999999994, 1.0 - 0.0005 / 86_400.0, 1.0 - 0.0004 / 86_400.0, 0.0000000058] {
                serials.push((day + e, "frac_day_edge"));
            }
            serials.push((day + rng.f64(), "frac_random"));
            let mut conv = vec![];
            for (s, kind) in &serials {
                check_serial(*s, sys, out, kind);
                out.case(Some(s.to_bits() ^ ((sys as u64) << 63)));
                conv.push((*s, ExcelDateTime::new(*s, ExcelDateTimeType::DateTime, sys).as_datetime()));
            }
            // monotonicity over the sampled serials of this day and the next whole day
            conv.push((day + 1.0, ExcelDateTime::new(day + 1.0, ExcelDateTimeType::DateTime, sys).as_datetime()));
            conv.sort_by(|a, b| a.0.partial_cmp(&b.0).unwrap());
            for w in conv.windows(2) {
                out.feat("monotone_pair");
                let off = if sys { 1462.0 } else { 0.0 };
                // pairs touching the fictitious day [60, 61) are excluded (see assumptions)
                if (60.0..61.0).contains(&(w[0].0 + off)) || (60.0..61.0).contains(&(w[1].0 + off)) {
                    continue;
                }
                if let (Some(a), Some(b)) = (w[0].1, w[1].1) {
                    if b < a {
                        out.fail("c11|monotone|fractional", json!({"a": w[0].0, "b": w[1].0, "is_1904": sys}));
                    }
                }
            }
            let ds = if rng.bool() { day + rng.f64() } else { rng.f64() * 3.0 };
            check_duration(ds, out);
            check_duration(-ds, out);
            check_plain(serials[0].0, out);
            check_plain(day, out);
            check_iso(&mut rng, out);
            if out.samples.len() < 2 {
                out.sample(json!({"serial": serials[0].0, "is_1904": sys, "got": format!("{:?}", conv[0].1)}));
            }
            let _ = (NaiveDate::from_ymd_opt(1900, 1, 1).map(|d| d.year()), NaiveTime::MIN.hour());
        }
    }
}
