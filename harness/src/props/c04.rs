//! C04 — ODS: cells read back at their position; repeat counts expand faithfully.
//! One logical grid, many run-length plans: every plan must read as the same range, equal to the
//! model grid (values and formulas).

use crate::core::*;
use crate::enc::ods::{self, OdsChoices};
use crate::model::*;
use crate::monitor::guard;
use crate::prng::{hash_bytes, Rng};
use calamine::{Ods, Reader};
use serde_json::json;
use std::io::Cursor;

pub struct C04;

fn gen_grid(rng: &mut Rng, out: &mut UnitResult) -> MSheet {
    let mut sh = MSheet::new(if rng.chance(1, 4) { "Feuille & <1>" } else { "Sheet1" });
    let r0 = match rng.below(4) {
        0 => 0,
        1 => 1,
        _ => rng.range_u32(0, 12),
    };
    let c0 = match rng.below(4) {
        0 => 0,
        1 => 1,
        _ => rng.range_u32(0, 8),
    };
    let h = 1 + rng.range_u32(0, 14);
    let w = 1 + rng.range_u32(0, 9);
    let mut serial = rng.below(500);
    let mut mk = |rng: &mut Rng, serial: &mut u64, p: Pos| -> MCell {
        *serial += 1;
        let k = *serial;
        let val = match rng.below(9) {
            0 | 1 => Val::Num(k as f64 + 0.5),
            2 => Val::Num(-(k as f64) * 3.0),
            3 | 4 => Val::Str(format!("t{}@{} & <x>", k, a1(p))),
            5 => Val::Bool(k % 2 == 0),
            6 => Val::IsoDate(format!("2019-{:02}-{:02}", 1 + k % 12, 1 + k % 28)),
            7 => Val::IsoDuration(format!("PT{:02}H{:02}M{:02}S", k % 24, k % 60, (k * 7) % 60)),
            _ => Val::Str(format!("multi {}\nline {}", k, k + 1)),
        };
        let mut c = MCell::v(val);
        if rng.chance(1, 3) {
            c.xf = Some(rng.usize(3));
        }
        if rng.chance(1, 6) {
            c.formula = Some(format!("of:=[.A{}]+{}", 1 + k % 9, k));
            if rng.chance(1, 3) {
                // a formula cell without a cached result (legal; the value is then absent)
                c.val = Val::Blank;
                c.xf = None;
            }
        }
        c
    };
    // row patterns: blank rows inside, duplicated adjacent rows, duplicated adjacent cells
    let mut r = 0;
    let mut prev_row: Option<Vec<(u32, MCell)>> = None;
    while r < h {
        let kind = rng.below(10);
        if kind == 0 && r > 0 && r + 1 < h {
            // interior blank row(s)
            let n = rng.range_u32(1, 3).min(h - 1 - r);
            out.feat("interior_blank_rows");
            if c0 > 0 {
                out.feat("interior_blank_row_first_col>0");
            }
            r += n;
            prev_row = None;
            continue;
        }
        if kind <= 2 && prev_row.is_some() {
            // repeat the previous row (identical content => a writer may use number-rows-repeated)
            for (c, cell) in prev_row.as_ref().unwrap() {
                sh.cells.insert((r0 + r, *c), cell.clone());
            }
            out.feat("duplicated_row");
            r += 1;
            continue;
        }
        let mut row = vec![];
        let mut c = 0;
        while c < w {
            match rng.below(8) {
                0 | 1 => {
                    c += 1; // gap
                }
                2 if c + 1 < w => {
                    // run of identical cells
                    let n = rng.range_u32(2, 4).min(w - c);
                    let cell = mk(rng, &mut serial, (r0 + r, c0 + c));
                    for k in 0..n {
                        row.push((c0 + c + k, cell.clone()));
                    }
                    out.feat("duplicated_cells");
                    c += n;
                }
                _ => {
                    row.push((c0 + c, mk(rng, &mut serial, (r0 + r, c0 + c))));
                    c += 1;
                }
            }
        }
        for (c, cell) in &row {
            sh.cells.insert((r0 + r, *c), cell.clone());
        }
        prev_row = if row.is_empty() { None } else { Some(row) };
        r += 1;
    }
    // a long run of empty cells / rows before a value (run-length counts far above any
    // "sensible" width: 1024 was LibreOffice's column limit, 16384 is today's)
    if !sh.cells.is_empty() && rng.chance(1, 6) {
        let row = sh.cells.keys().next().unwrap().0;
        let col = *rng.pick(&[1023u32, 1024, 1025, 1026, 2047, 2048, 5000, 16383]);
        sh.cells.insert((row, col), mk(rng, &mut serial, (row, col)));
        out.feat("far_column>=1023");
    } else if !sh.cells.is_empty() && rng.chance(1, 6) {
        let col = sh.cells.keys().next().unwrap().1;
        let row = r0 + h + *rng.pick(&[1023u32, 1024, 1025, 4096, 20_000]);
        sh.cells.insert((row, col), mk(rng, &mut serial, (row, col)));
        out.feat("far_row>=1023");
    }
    if sh.cells.values().any(|c| c.formula.is_some() && c.val == Val::Blank) {
        out.feat("formula_without_cached_value");
    }
    if r0 > 1 {
        out.feat("leading_empty_rows>1");
    }
    if c0 > 0 {
        out.feat("first_col>0");
    }
    sh
}

fn expect_formulas(sh: &MSheet) -> std::collections::BTreeMap<Pos, String> {
    sh.cells.iter().filter_map(|(p, c)| c.formula.clone().map(|f| (*p, f))).collect()
}

pub fn check_ods(book: &MBook, bytes: &[u8], tag: &str, out: &mut UnitResult, ctx: &serde_json::Value) -> bool {
    let fail = |out: &mut UnitResult, class: String, d: serde_json::Value| out.fail(class, json!({"ctx": ctx, "detail": d, "input_hex": hex(bytes)}));
    let mut wb = match guard(|| Ods::new(Cursor::new(bytes.to_vec()))) {
        Ok(Ok(w)) => w,
        Ok(Err(e)) => {
            fail(out, format!("{}|open_error|{}", tag, super::c01::err_variant(&e)), json!(format!("{:?}", e)));
            return false;
        }
        Err(f) => {
            fail(out, format!("{}|open|fault:{}", tag, f.class), json!(f.detail));
            return false;
        }
    };
    let mut ok = true;
    for sh in &book.sheets {
        let exp = ods::expect_values(sh);
        match guard(|| wb.worksheet_range(&sh.name)) {
            Ok(Ok(got)) => {
                out.sum("cells_compared", exp.cells.len() as u64);
                if let Some((sym, d)) = compare_range(&got, &exp, false) {
                    fail(out, format!("{}|values|{}", tag, sym), json!({"sheet": sh.name, "what": d}));
                    ok = false;
                }
            }
            Ok(Err(e)) => {
                fail(out, format!("{}|read_error|{}", tag, super::c01::err_variant(&e)), json!(format!("{:?}", e)));
                ok = false;
            }
            Err(f) => {
                fail(out, format!("{}|read|fault:{}", tag, f.class), json!(f.detail));
                ok = false;
            }
        }
        let fx = expect_formulas(sh);
        match guard(|| wb.worksheet_formula(&sh.name)) {
            Ok(Ok(got)) => {
                let bounds = if fx.is_empty() {
                    None
                } else {
                    Some((
                        (fx.keys().map(|p| p.0).min().unwrap(), fx.keys().map(|p| p.1).min().unwrap()),
                        (fx.keys().map(|p| p.0).max().unwrap(), fx.keys().map(|p| p.1).max().unwrap()),
                    ))
                };
                let gb = got.start().zip(got.end());
                let mut bad = None;
                if gb != bounds {
                    bad = Some(format!("bounds {:?} vs {:?}", gb, bounds));
                } else {
                    for (p, f) in &fx {
                        if got.get_value(*p) != Some(f) {
                            bad = Some(format!("formula at {}: {:?} vs {:?}", a1(*p), got.get_value(*p), f));
                            break;
                        }
                    }
                    if bad.is_none() && got.used_cells().count() != fx.len() {
                        bad = Some("extra formula cells".into());
                    }
                }
                if let Some(b) = bad {
                    fail(out, format!("{}|formulas", tag), json!({"sheet": sh.name, "what": b}));
                    ok = false;
                }
            }
            Ok(Err(e)) => {
                fail(out, format!("{}|formula_error|{}", tag, super::c01::err_variant(&e)), json!(format!("{:?}", e)));
                ok = false;
            }
            Err(f) => {
                fail(out, format!("{}|formula|fault:{}", tag, f.class), json!(f.detail));
                ok = false;
            }
        }
    }
    ok
}

impl Prop for C04 {
    fn id(&self) -> &'static str {
        "C04"
    }
    fn rule(&self) -> String {
        "random grids (<= 15 x 10, first used row/column >= 0, adjacent duplicate cells and rows, interior/leading blank rows, gaps; float/percentage/currency/string/multi-paragraph/boolean/date/time cells, formulas) each written under several run-length plans (every maximal run as one repeated element / everything explicit / random cuts; trailing empties absent / explicit / LibreOffice-style huge repeats; covered cells) and read through worksheet_range and worksheet_formula. Non-trivial = grid with >= 1 cell and a plan other than the default; distinct by hash of the file.".into()
    }
    fn assumptions(&self) -> Vec<String> {
        vec![
            "trusted base: the ods reference encoder (ODF 1.2 table/text markup with the conventional prefixes, no whitespace between row children)".into(),
            "string cells whose text is empty are not generated".into(),
        ]
    }
    fn units(&self, tier: Tier) -> u64 {
        tier.pick(16, 240)
    }
    fn mandatory(&self, _t: Tier) -> Vec<String> {
        ["cuts:Maximal", "cuts:Explicit", "cuts:Random", "trailing:Absent", "trailing:Explicit", "trailing:Huge", "interior_blank_rows", "interior_blank_row_first_col>0", "duplicated_row", "duplicated_cells", "leading_empty_rows>1", "first_col>0", "far_column>=1023", "far_row>=1023", "formula_without_cached_value", "repeated_value_cell", "repeated_empty_cell", "repeated_value_row", "repeated_empty_row", "covered_cell", "wrapper:table:table-header-rows", "wrapper:table:table-row-group", "wrapper:table:table-rows", "str:text:p", "str:string-value", "str:string-value:rendering_differs", "str:string-value:no_rendering", "str:multi_paragraph"]
            .iter().map(|s| s.to_string()).collect()
    }
    fn run_unit(&self, ctx: &Ctx, unit: u64, out: &mut UnitResult) {
        let n = ctx.tier.pick(30, 120);
        for i in 0..n {
            let mut rng = Rng::derive(ctx.seed, "c04", unit * 10_000 + i);
            let mut book = MBook::default();
            let n_sheets = 1 + rng.usize(2);
            for s in 0..n_sheets {
                let mut sh = gen_grid(&mut rng, out);
                if s > 0 {
                    sh.name = format!("Other{}", s);
                }
                book.sheets.push(sh);
            }
            let cells: usize = book.sheets.iter().map(|s| s.cells.len()).sum();
            for k in 0..ctx.tier.pick(6, 10) {
                let ch = if k == 0 { OdsChoices::default() } else { OdsChoices::random(&mut rng) };
                let enc = ods::encode(&book, &ch, &mut rng);
                for f in ch.features() {
                    out.feat(&f);
                }
                for (kf, n) in &enc.counts {
                    out.feat_n(kf, *n);
                }
                let cj = json!({"unit": unit, "grid": i, "plan": k, "choices": format!("{:?}", ch)});
                check_ods(&book, &enc.bytes, "c04", out, &cj);
                out.case(if cells > 0 && k > 0 { Some(hash_bytes(&enc.bytes)) } else { None });
                if out.samples.is_empty() && k == 1 {
                    out.sample(json!({"cells": book.sheets[0].cells.iter().take(4).map(|(p, c)| format!("{}={:?}", a1(*p), c.val)).collect::<Vec<_>>(), "plan": format!("{:?}", ch)}));
                }
            }
        }
    }
}
