//! C07 — read calls are pure and the alternative access paths agree.
//! Recorded call histories on one reader; an offline checker partitions the log by
//! (operation, arguments, header-row option in force) and requires a single result per key, equal
//! to the result of the same call on a fresh reader; cross-path equalities; unknown names are
//! errors; the auto-detected reader agrees; the hooked state digest never changes across reads.

use crate::core::*;
use crate::enc::biff8::{BiffChoices, BiffExtra};
use crate::enc::cfb::{self, CfbChoices};
use crate::enc::ods::OdsChoices;
use crate::enc::ovba::{self, Module, Project, Stats, Strategy};
use crate::enc::xlsb::{XlsbChoices, XlsbExtra};
use crate::enc::xlsx::XlsxChoices;
use crate::gen;
use crate::model::*;
use crate::monitor::guard;
use crate::prng::{hash_bytes, Rng};
use calamine::{open_workbook_auto_from_rs, Data, HeaderRow, Ods, Reader, ReaderRef, Sheets, Xls, Xlsb, Xlsx};
use serde_json::json;
use std::collections::BTreeMap;
use std::io::Cursor;

pub struct C07;

type Cur = Cursor<Vec<u8>>;

#[derive(Clone, Debug, PartialEq, Eq, PartialOrd, Ord)]
enum Op {
    Range(String),
    RangeRef(String),
    RangeAt(usize),
    Worksheets,
    Formula(String),
    MergeCells(String),
    MergeCellsAt(usize),
    LoadMerged,
    MergedRegions,
    MergedBySheet(String),
    LoadTables,
    TableNames,
    Table(String),
    TableRef(String),
    Vba,
    SheetNames,
    Metadata,
    DefinedNames,
}

fn rng_str(r: &calamine::Range<Data>) -> String {
    format!("{:?}..{:?}:{:?}", r.start(), r.end(), r.cells().map(|c| c.2).collect::<Vec<_>>())
}

trait Wb {
    fn set_header(&mut self, h: HeaderRow);
    /// canonical rendering of the result of `op` ("n/a" if the reader has no such operation)
    fn call(&mut self, op: &Op) -> String;
    fn digest(&self) -> (String, String);
}

fn vba_str<E: std::fmt::Debug>(v: Option<Result<std::borrow::Cow<'_, calamine::vba::VbaProject>, E>>) -> String {
    match v {
        None => "None".into(),
        Some(Err(e)) => format!("Err({:?})", e),
        Some(Ok(p)) => {
            let names = p.get_module_names();
            let mods: Vec<String> = names.iter().map(|n| format!("{}={:?}", n, p.get_module_raw(n).map(|b| b.len()).ok())).collect();
            format!("{:?}|{:?}", mods, p.get_references().iter().map(|r| r.name.clone()).collect::<Vec<_>>())
        }
    }
}

macro_rules! common_ops {
    ($self:ident, $op:ident) => {
        match $op {
            Op::Range(n) => Some(match $self.worksheet_range(n) {
                Ok(r) => rng_str(&r),
                Err(e) => format!("Err({})", super::c01::err_variant(&e)),
            }),
            Op::RangeAt(i) => Some(match $self.worksheet_range_at(*i) {
                None => "None".into(),
                Some(Ok(r)) => rng_str(&r),
                Some(Err(e)) => format!("Err({})", super::c01::err_variant(&e)),
            }),
            Op::Worksheets => Some(format!("{:?}", {
                let mut v: Vec<(String, String)> = $self.worksheets().iter().map(|(n, r)| (n.clone(), rng_str(r))).collect();
                v.sort();
                v
            })),
            Op::Formula(n) => Some(match $self.worksheet_formula(n) {
                Ok(r) => format!("{:?}..{:?}:{:?}", r.start(), r.end(), r.cells().map(|c| c.2).collect::<Vec<_>>()),
                Err(e) => format!("Err({})", super::c01::err_variant(&e)),
            }),
            Op::Vba => Some(vba_str($self.vba_project())),
            Op::SheetNames => Some(format!("{:?}", $self.sheet_names())),
            Op::Metadata => Some(format!("{:?}", $self.sheets_metadata())),
            Op::DefinedNames => Some(format!("{:?}", $self.defined_names())),
            _ => None,
        }
    };
}

impl Wb for Xlsx<Cur> {
    fn set_header(&mut self, h: HeaderRow) {
        self.with_header_row(h);
    }
    fn call(&mut self, op: &Op) -> String {
        if let Some(s) = common_ops!(self, op) {
            return s;
        }
        match op {
            Op::RangeRef(n) => match self.worksheet_range_ref(n) {
                Ok(r) => format!("{:?}..{:?}:{:?}", r.start(), r.end(), r.cells().map(|c| Data::from(c.2.clone())).collect::<Vec<_>>()),
                Err(e) => format!("Err({})", super::c01::err_variant(&e)),
            },
            Op::MergeCells(n) => format!("{:?}", self.worksheet_merge_cells(n).map(|r| r.map_err(|e| super::c01::err_variant(&e)))),
            Op::MergeCellsAt(i) => format!("{:?}", self.worksheet_merge_cells_at(*i).map(|r| r.map_err(|e| super::c01::err_variant(&e)))),
            Op::LoadMerged => format!("{:?}", self.load_merged_regions().map_err(|e| super::c01::err_variant(&e))),
            // (merged_regions panics by contract unless the load succeeded)
            Op::MergedRegions => match self.load_merged_regions() {
                Ok(()) => format!("{:?}", self.merged_regions()),
                Err(e) => format!("load failed: {}", super::c01::err_variant(&e)),
            },
            Op::MergedBySheet(n) => match self.load_merged_regions() {
                Ok(()) => format!("{:?}", self.merged_regions_by_sheet(n)),
                Err(e) => format!("load failed: {}", super::c01::err_variant(&e)),
            },
            Op::LoadTables => format!("{:?}", self.load_tables().map_err(|e| super::c01::err_variant(&e))),
            Op::TableNames => {
                let _ = self.load_tables();
                format!("{:?}", self.table_names())
            }
            Op::Table(n) => {
                let _ = self.load_tables();
                match self.table_by_name(n) {
                    Ok(t) => format!("{}|{}|{:?}|{}", t.name(), t.sheet_name(), t.columns(), rng_str(t.data())),
                    Err(e) => format!("Err({})", super::c01::err_variant(&e)),
                }
            }
            Op::TableRef(n) => {
                let _ = self.load_tables();
                match self.table_by_name_ref(n) {
                    Ok(t) => format!("{}|{}|{:?}|{:?}..{:?}:{:?}", t.name(), t.sheet_name(), t.columns(), t.data().start(), t.data().end(), t.data().cells().map(|c| Data::from(c.2.clone())).collect::<Vec<_>>()),
                    Err(e) => format!("Err({})", super::c01::err_variant(&e)),
                }
            }
            _ => "n/a".into(),
        }
    }
    fn digest(&self) -> (String, String) {
        calamine::verif::xlsx_state_digest(self)
    }
}

impl Wb for Xlsb<Cur> {
    fn set_header(&mut self, h: HeaderRow) {
        self.with_header_row(h);
    }
    fn call(&mut self, op: &Op) -> String {
        if let Some(s) = common_ops!(self, op) {
            return s;
        }
        match op {
            Op::RangeRef(n) => match self.worksheet_range_ref(n) {
                Ok(r) => format!("{:?}..{:?}:{:?}", r.start(), r.end(), r.cells().map(|c| Data::from(c.2.clone())).collect::<Vec<_>>()),
                Err(e) => format!("Err({})", super::c01::err_variant(&e)),
            },
            _ => "n/a".into(),
        }
    }
    fn digest(&self) -> (String, String) {
        calamine::verif::xlsb_state_digest(self)
    }
}

impl Wb for Xls<Cur> {
    fn set_header(&mut self, h: HeaderRow) {
        self.with_header_row(h);
    }
    fn call(&mut self, op: &Op) -> String {
        if let Some(s) = common_ops!(self, op) {
            return s;
        }
        match op {
            Op::MergeCells(n) => format!("{:?}", self.worksheet_merge_cells(n)),
            Op::MergeCellsAt(i) => format!("{:?}", self.worksheet_merge_cells_at(*i)),
            _ => "n/a".into(),
        }
    }
    fn digest(&self) -> (String, String) {
        calamine::verif::xls_state_digest(self)
    }
}

impl Wb for Ods<Cur> {
    fn set_header(&mut self, h: HeaderRow) {
        self.with_header_row(h);
    }
    fn call(&mut self, op: &Op) -> String {
        common_ops!(self, op).unwrap_or_else(|| "n/a".into())
    }
    fn digest(&self) -> (String, String) {
        calamine::verif::ods_state_digest(self)
    }
}

impl Wb for Sheets<Cur> {
    fn set_header(&mut self, h: HeaderRow) {
        self.with_header_row(h);
    }
    fn call(&mut self, op: &Op) -> String {
        // errors of the auto reader are wrapped in calamine::Error: compare their inner variant
        let s = common_ops!(self, op).unwrap_or_else(|| "n/a".into());
        s
    }
    fn digest(&self) -> (String, String) {
        (String::new(), String::new())
    }
}

fn header_key(h: &Option<u32>) -> String {
    match h {
        None => "default".into(),
        Some(n) => format!("row{}", n),
    }
}

fn to_header(h: &Option<u32>) -> HeaderRow {
    match h {
        None => HeaderRow::FirstNonEmptyRow,
        Some(n) => HeaderRow::Row(*n),
    }
}

/// normalises error renderings so that the auto reader (which wraps errors) compares equal
fn norm_auto(s: &str) -> String {
    if s.starts_with("Err(") || s.contains("Err(") {
        "Err".into()
    } else {
        s.to_string()
    }
}

fn run_history<W: Wb>(fmt: &str, open: &dyn Fn() -> Option<W>, book: &MBook, has_ref: bool, rng: &mut Rng, out: &mut UnitResult, ctxj: &serde_json::Value, bytes: &[u8]) {
    let fail = |out: &mut UnitResult, class: String, d: serde_json::Value| out.fail(class, json!({"ctx": ctxj, "detail": d, "input_hex": hex(bytes)}));
    let Some(mut wb) = open() else {
        fail(out, format!("c07|{}|open_failed", fmt), json!(null));
        return;
    };
    let names: Vec<String> = book.sheets.iter().map(|s| s.name.clone()).collect();
    let tables: Vec<String> = book.sheets.iter().flat_map(|s| s.tables.iter().map(|t| t.name.clone())).collect();
    // names that are not sheets of this workbook: a made-up one and the existing names in another
    // ASCII case (a name is matched exactly)
    let mut unknown: Vec<String> = vec!["no such sheet".to_string()];
    for n in &names {
        for v in [n.to_ascii_uppercase(), n.to_ascii_lowercase()] {
            if !names.iter().any(|x| x.eq_ignore_ascii_case(&v) && *x == v) && !names.contains(&v) {
                unknown.push(v);
            }
        }
    }
    let pick_name = |rng: &mut Rng| -> String {
        if rng.chance(1, 8) {
            unknown[rng.usize(unknown.len())].clone()
        } else {
            names[rng.usize(names.len())].clone()
        }
    };
    let gen_op = |rng: &mut Rng| -> Op {
        match rng.below(20) {
            0..=3 => Op::Range(pick_name(rng)),
            4 | 5 => Op::RangeRef(pick_name(rng)),
            6 => Op::RangeAt(rng.usize(names.len() + 1)),
            7 => Op::Worksheets,
            8 | 9 => Op::Formula(pick_name(rng)),
            10 => Op::MergeCells(pick_name(rng)),
            11 => Op::MergeCellsAt(rng.usize(names.len() + 1)),
            12 => [Op::LoadMerged, Op::MergedRegions, Op::LoadTables, Op::TableNames][rng.usize(4)].clone(),
            13 => Op::MergedBySheet(pick_name(rng)),
            14 | 15 => {
                let t = if tables.is_empty() || rng.chance(1, 4) { "no such table".to_string() } else { tables[rng.usize(tables.len())].clone() };
                if rng.bool() {
                    Op::Table(t)
                } else {
                    Op::TableRef(t)
                }
            }
            16 => Op::Vba,
            17 => Op::SheetNames,
            18 => Op::Metadata,
            _ => Op::DefinedNames,
        }
    };
    // ---- record the history
    let header_choices: Vec<Option<u32>> = {
        let last = book.sheets.iter().flat_map(|s| s.cells.keys().map(|p| p.0)).max().unwrap_or(0);
        let first = book.sheets.iter().flat_map(|s| s.cells.keys().map(|p| p.0)).min().unwrap_or(0);
        vec![None, Some(first), Some(first + 1), Some(last), Some(last + 5)]
    };
    let mut header: Option<u32> = None;
    let mut log: Vec<(usize, Op, String, String)> = vec![];
    let (core0, _) = wb.digest();
    let n_steps = 8 + rng.usize(40);
    let mut prev_op: Option<Op> = None;
    // scripted prefix (every other history): the same cached-looking read before and after a
    // header-row change, for tables, merged regions and ranges of one sheet
    let mut script: Vec<(Option<Option<u32>>, Op)> = vec![];
    if rng.bool() {
        let h1 = rng.pick(&header_choices).clone();
        let h2 = rng.pick(&header_choices).clone();
        let n = pick_name(rng);
        if let Some(t) = tables.first() {
            let t2 = tables[rng.usize(tables.len())].clone();
            script.push((Some(h1), Op::Table(t.clone())));
            script.push((Some(h2), Op::Table(t2.clone())));
            script.push((None, Op::TableRef(t2)));
            script.push((Some(h1), Op::Table(t.clone())));
            out.feat("scripted:table_across_header_change");
        }
        // the lazily filled caches: loading twice, reading in between
        script.push((None, Op::LoadMerged));
        script.push((None, Op::MergedRegions));
        script.push((None, Op::LoadMerged));
        script.push((None, Op::MergedRegions));
        script.push((None, Op::LoadTables));
        script.push((None, Op::TableNames));
        script.push((None, Op::LoadTables));
        script.push((Some(h1), Op::Range(n.clone())));
        script.push((Some(h2), Op::Range(n.clone())));
        script.push((None, Op::RangeRef(n.clone())));
        script.push((Some(h1), Op::Formula(n.clone())));
        script.push((Some(h2), Op::Formula(n)));
        script.reverse();
    }
    let n_steps = n_steps + script.len();
    for step in 0..n_steps {
        let scripted = script.pop();
        if let Some((Some(h), _)) = &scripted {
            header = h.clone();
            wb.set_header(to_header(&header));
            out.feat("header_row_changed");
        } else if scripted.is_none() && rng.chance(1, 6) {
            header = rng.pick(&header_choices).clone();
            wb.set_header(to_header(&header));
            out.feat("header_row_changed");
        }
        // heavy repetition and interleaving over few sheets
        let op = match (scripted, &prev_op, rng.below(4)) {
            (Some((_, op)), _, _) => op,
            (None, Some(p), 0) => p.clone(),
            _ => gen_op(rng),
        };
        let res = match guard(|| wb.call(&op)) {
            Ok(s) => s,
            Err(f) => {
                fail(out, format!("c07|{}|fault:{}", fmt, f.class), json!({"step": step, "op": format!("{:?}", op)}));
                return;
            }
        };
        if res != "n/a" {
            out.feat(&format!("op:{}", format!("{:?}", op).split('(').next().unwrap_or("?")));
            log.push((step, op.clone(), header_key(&header), res));
            let (core, _) = wb.digest();
            if core != core0 {
                fail(out, format!("c07|{}|state_digest_changed|{}", fmt, format!("{:?}", op).split('(').next().unwrap_or("?")), json!({"step": step, "op": format!("{:?}", op)}));
                return;
            }
        }
        prev_op = Some(op);
    }
    out.sum("calls_recorded", log.len() as u64);
    // ---- offline checker
    let mut by_key: BTreeMap<(Op, String), (usize, String)> = BTreeMap::new();
    for (step, op, h, res) in &log {
        match by_key.get(&(op.clone(), h.clone())) {
            Some((s0, r0)) if r0 != res => {
                fail(out, format!("c07|{}|same_call_different_result|{}", fmt, format!("{:?}", op).split('(').next().unwrap_or("?")), json!({"op": format!("{:?}", op), "header": h, "first_step": s0, "step": step, "history": log.iter().take(*step + 1).map(|l| format!("{}:{:?}@{}", l.0, l.1, l.2)).collect::<Vec<_>>()}));
                return;
            }
            Some(_) => out.sum("repeated_calls_checked", 1),
            None => {
                by_key.insert((op.clone(), h.clone()), (*step, res.clone()));
            }
        }
    }
    // fresh-reader reference per key
    for ((op, h), (step, res)) in &by_key {
        let Some(mut fresh) = open() else { continue };
        let hv = header_choices.iter().find(|c| header_key(c) == *h).cloned().unwrap_or(None);
        fresh.set_header(to_header(&hv));
        let r = guard(|| fresh.call(op)).unwrap_or_else(|f| format!("fault:{}", f.class));
        out.sum("fresh_reader_comparisons", 1);
        if r != *res {
            fail(out, format!("c07|{}|differs_from_fresh_reader|{}", fmt, format!("{:?}", op).split('(').next().unwrap_or("?")), json!({"op": format!("{:?}", op), "header": h, "step": step, "history": log.iter().take(*step + 1).map(|l| format!("{}:{:?}@{}", l.0, l.1, l.2)).collect::<Vec<_>>()}));
            return;
        }
    }
    // ---- cross-path equalities on a fresh reader (default option and one explicit row)
    let Some(mut f) = open() else { return };
    for hv in [None, header_choices[2]] {
        f.set_header(to_header(&hv));
        let ws = f.call(&Op::Worksheets);
        for (i, n) in names.iter().enumerate() {
            let a = f.call(&Op::Range(n.clone()));
            let at = f.call(&Op::RangeAt(i));
            if a != at {
                fail(out, format!("c07|{}|range_at_differs", fmt), json!({"sheet": n, "index": i, "header": header_key(&hv)}));
                return;
            }
            if has_ref {
                let b = f.call(&Op::RangeRef(n.clone()));
                if a != b {
                    fail(out, format!("c07|{}|range_ref_differs", fmt), json!({"sheet": n, "header": header_key(&hv)}));
                    return;
                }
            }
            if hv.is_none() && !a.starts_with("Err") && !ws.contains(&format!("({:?}, {:?})", n, a)) {
                fail(out, format!("c07|{}|worksheets_entry_differs", fmt), json!({"sheet": n}));
                return;
            }
            out.sum("cross_path_comparisons", 1);
        }
        if f.call(&Op::RangeAt(names.len())) != "None" {
            fail(out, format!("c07|{}|range_at_past_end", fmt), json!(null));
            return;
        }
        for u in &unknown {
            if u != "no such sheet" {
                out.feat("unknown_name:other_case");
            }
            for op in [Op::Range(u.clone()), Op::Formula(u.clone())] {
                if !f.call(&op).starts_with("Err") {
                    fail(out, format!("c07|{}|unknown_sheet_not_an_error", fmt), json!({"op": format!("{:?}", op), "sheets": names}));
                    return;
                }
            }
        }
    }
    // ---- the auto-detected reader returns the same results
    match guard(|| open_workbook_auto_from_rs(cur_at(bytes))) {
        Ok(Ok(mut auto)) => {
            let Some(mut own) = open() else { return };
            let mut ops = vec![Op::SheetNames, Op::Metadata, Op::DefinedNames, Op::Worksheets, Op::Vba, Op::Range("no such sheet".into())];
            for n in &names {
                ops.push(Op::Range(n.clone()));
                ops.push(Op::Formula(n.clone()));
            }
            for hv in [None, header_choices[1]] {
                auto.set_header(to_header(&hv));
                own.set_header(to_header(&hv));
                for op in &ops {
                    let a = guard(|| auto.call(op)).unwrap_or_else(|f| format!("fault:{}", f.class));
                    let b = guard(|| own.call(op)).unwrap_or_else(|f| format!("fault:{}", f.class));
                    out.sum("auto_reader_comparisons", 1);
                    if norm_auto(&a) != norm_auto(&b) {
                        fail(out, format!("c07|{}|auto_reader_differs|{}", fmt, format!("{:?}", op).split('(').next().unwrap_or("?")), json!({"op": format!("{:?}", op), "header": header_key(&hv)}));
                        return;
                    }
                }
            }
            out.feat("auto_detected");
        }
        Ok(Err(e)) => fail(out, format!("c07|{}|auto_open_error", fmt), json!(format!("{:?}", e))),
        Err(f) => fail(out, format!("c07|{}|auto_open|fault:{}", fmt, f.class), json!(f.detail)),
    }
    out.case(Some(hash_bytes(bytes) ^ n_steps as u64));
}

fn gen_wb(rng: &mut Rng, fmt: &str) -> MBook {
    let lim = if fmt == "xls" { &gen::XLS_LIMITS } else { &gen::XLSX_LIMITS };
    let mut b = gen::gen_book(rng, lim, &gen::GenOpts { empty_strings: false, max_sheets: 3, max_cells: 25, formulas: true, styles: true });
    for (i, sh) in b.sheets.iter_mut().enumerate() {
        sh.name = format!("Sh{}", i + 1);
        if fmt == "ods" {
            sh.cells.retain(|_, c| !matches!(c.val, Val::Err(_)));
            for c in sh.cells.values_mut() {
                if let Some(f) = &c.formula {
                    c.formula = Some(format!("of:={}", f));
                }
            }
        }
        // keep the rows close together: explicit header rows make dense ranges
        let cells: Vec<(Pos, MCell)> = sh.cells.iter().map(|(p, c)| ((p.0 % 40 + if p.0 > 1000 { 7 } else { 0 }, p.1 % 60), c.clone())).collect();
        sh.cells = cells.into_iter().collect();
        if fmt == "xlsx" || fmt == "xls" {
            for _ in 0..rng.usize(3) {
                let r = rng.range_u32(0, 20);
                let c = rng.range_u32(0, 8);
                sh.merges.push(((r, c), (r + rng.range_u32(0, 3), c + rng.range_u32(0, 2))));
            }
        }
        if fmt == "xlsx" && rng.bool() {
            let r = rng.range_u32(0, 10);
            sh.tables.push(MTable { name: format!("T{}", i + 1), columns: vec!["a".into(), "b".into()], rect: ((r, 1), (r + 3, 2)), header_rows: None, totals_rows: if rng.bool() { Some(1) } else { None } });
        }
    }
    // a non-worksheet in front of / between the worksheets (index spaces must stay aligned)
    if (fmt == "xlsx" || fmt == "xlsb" || fmt == "xls") && rng.chance(1, 2) {
        let mut s = MSheet::new("ChartOrMacro");
        s.kind = if fmt == "xls" { SheetKind::Macro } else { SheetKind::Chart };
        let at = rng.usize(b.sheets.len() + 1);
        b.sheets.insert(at, s);
    }
    b
}

/// rewrites one worksheet part (preferably one that owns a table) so that it holds a malformed
/// numeric cell; None if no suitable part is found
fn break_one_sheet(xlsx: &[u8]) -> Option<Vec<u8>> {
    let mut parts = crate::enc::zipw::read_all(xlsx)?;
    let is_sheet = |n: &str| n.to_ascii_lowercase().contains("worksheets/sheet") && n.ends_with(".xml");
    let with_table: Vec<String> = parts
        .iter()
        .filter(|p| p.name.contains("worksheets/_rels/") && String::from_utf8_lossy(&p.data).contains("table"))
        .filter_map(|p| p.name.rsplit('/').next().map(|f| f.trim_end_matches(".rels").to_string()))
        .collect();
    let at = parts
        .iter()
        .position(|p| is_sheet(&p.name) && with_table.iter().any(|f| p.name.ends_with(f.as_str())))
        .or_else(|| parts.iter().rposition(|p| is_sheet(&p.name)))?;
    let d = parts[at].data.clone();
    // every other time: a malformed mergeCell reference instead (the cell data stay readable,
    // the merged-region scan of the workbook fails at this sheet)
    static FLIP: std::sync::atomic::AtomicU64 = std::sync::atomic::AtomicU64::new(0);
    let mkey = b"mergeCell ref=\"";
    if FLIP.fetch_add(1, std::sync::atomic::Ordering::Relaxed) % 2 == 1 {
        if let Some((pi, mp)) = parts.iter().enumerate().find_map(|(pi, p)| if is_sheet(&p.name) { p.data.windows(mkey.len()).position(|w| w == mkey).map(|x| (pi, x)) } else { None }) {
            let mut nd = parts[pi].data[..mp + mkey.len()].to_vec();
            nd.extend_from_slice(b"A1:?");
            let rest = &parts[pi].data[mp + mkey.len()..];
            let q = rest.iter().position(|b| *b == b'"')?;
            nd.extend_from_slice(&rest[q..]);
            parts[pi].data = nd;
            return Some(crate::enc::zipw::build(&parts));
        }
    }
    let key = b"sheetData>";
    let pos = d.windows(key.len()).position(|w| w == key)?;
    if pos > 0 && d[pos - 1] == b'/' {
        return None; // <sheetData/>: nothing to break
    }
    let lt = d[..pos].iter().rposition(|b| *b == b'<')?;
    let prefix = String::from_utf8_lossy(&d[lt + 1..pos]).into_owned(); // "" or "x:"
    let bad = format!("<{0}row r=\"1\"><{0}c r=\"A1\" t=\"n\"><{0}v>12abc</{0}v></{0}c></{0}row>", prefix);
    let mut nd = d[..pos + key.len()].to_vec();
    nd.extend_from_slice(bad.as_bytes());
    nd.extend_from_slice(&d[pos + key.len()..]);
    parts[at].data = nd;
    Some(crate::enc::zipw::build(&parts))
}

/// a cursor over the file, every other time left at some position other than the start (the
/// result of a read is a function of the file, not of where the handed-over reader stood)
fn cur_at(bytes: &[u8]) -> Cur {
    static N: std::sync::atomic::AtomicU64 = std::sync::atomic::AtomicU64::new(0);
    let k = N.fetch_add(1, std::sync::atomic::Ordering::Relaxed);
    let mut c = Cursor::new(bytes.to_vec());
    if k % 2 == 1 {
        c.set_position([3u64, 512, bytes.len() as u64 / 2, bytes.len() as u64][(k / 2 % 4) as usize]);
    }
    c
}

fn vba_bin(rng: &mut Rng) -> Vec<u8> {
    let p = Project { codepage: 1252, modules: vec![Module { name: "Module1".into(), source: b"Sub a()\r\nEnd Sub\r\n".to_vec(), text_offset: 3, document: false, read_only: false, private: false }], references: vec![], compat_version: false };
    let mut st = Stats::default();
    let e = ovba::project_entries(&p, Strategy::Greedy, None, rng, &mut st);
    cfb::build(&e, &CfbChoices::default(), rng).bytes
}

impl Prop for C07 {
    fn id(&self) -> &'static str {
        "C07"
    }
    fn rule(&self) -> String {
        "workbooks of all four formats (1..3 worksheets plus optionally a chart/macro sheet in front of or between them, values, formulas, merged regions, tables, VBA project) x recorded histories of 8..47 calls drawn with heavy repetition from {worksheet_range, worksheet_range_ref, worksheet_range_at, worksheets, worksheet_formula, worksheet_merge_cells(_at), load_merged_regions, merged_regions(_by_sheet), load_tables, table_names, table_by_name(_ref) incl. unknown tables, vba_project, sheet_names, sheets_metadata, defined_names, unknown sheet names, with_header_row changes}; offline checker: one result per (operation, arguments, option) key, equal to the same call on a fresh reader; worksheet_range == range_ref == range_at(n) == worksheets() entry (default option); unknown names are errors; the auto-detected reader agrees; the hooked digest of the reader's immutable state is unchanged after every call. Distinct by hash of (file, history length).".into()
    }
    fn assumptions(&self) -> Vec<String> {
        vec![
            "results are compared through their Debug rendering; error values through their variant name".into(),
            "worksheets() is compared with worksheet_range only under the default option (xls/ods ignore the option there by design)".into(),
        ]
    }
    fn units(&self, tier: Tier) -> u64 {
        tier.pick(16, 160)
    }
    fn mandatory(&self, _t: Tier) -> Vec<String> {
        let mut v: Vec<String> = ["fmt:xlsx", "fmt:xlsb", "fmt:xls", "fmt:ods", "header_row_changed", "auto_detected", "non_worksheet_present", "with_vba", "scripted:table_across_header_change", "xlsx:unreadable_sheet", "unknown_name:other_case", "zip_package_after_a_prefix"].iter().map(|s| s.to_string()).collect();
        for o in ["Range", "RangeRef", "RangeAt", "Worksheets", "Formula", "MergeCells", "MergeCellsAt", "MergedBySheet", "Table", "TableRef", "Vba", "SheetNames", "Metadata", "DefinedNames"] {
            v.push(format!("op:{}", o));
        }
        v
    }
    fn run_unit(&self, ctx: &Ctx, unit: u64, out: &mut UnitResult) {
        let mut rng = Rng::derive(ctx.seed, "c07", unit);
        for i in 0..ctx.tier.pick(40, 250) {
            let fmt = ["xlsx", "xlsb", "xls", "ods"][(i % 4) as usize];
            out.feat(&format!("fmt:{}", fmt));
            let book = gen_wb(&mut rng, fmt);
            if book.sheets.iter().any(|s| s.kind != SheetKind::Work) {
                out.feat("non_worksheet_present");
            }
            let ctxj = json!({"unit": unit, "case": i, "format": fmt, "sheets": book.sheets.iter().map(|s| format!("{}:{:?}:{} cells", s.name, s.kind, s.cells.len())).collect::<Vec<_>>()});
            if out.samples.is_empty() {
                out.sample(ctxj.clone());
            }
            let with_vba = rng.chance(1, 3) && fmt != "ods";
            if with_vba {
                out.feat("with_vba");
            }
            match fmt {
                "xlsx" => {
                    let mut ch = XlsxChoices::random(&mut rng);
                    ch.name_case = false;
                    if with_vba {
                        ch.vba = Some(vba_bin(&mut rng));
                    }
                    let mut bytes = crate::enc::xlsx::encode(&book, &ch, &mut rng).bytes;
                    if rng.chance(1, 4) {
                        // a workbook one sheet of which cannot be read (a malformed number): every
                        // read of that sheet, and of the tables on it, fails - consistently - and
                        // must not disturb the reads that follow
                        if let Some(b) = break_one_sheet(&bytes) {
                            bytes = b;
                            out.feat("xlsx:unreadable_sheet");
                        }
                    }
                    if rng.chance(1, 6) {
                        // a zip package may be preceded by other bytes (readers locate it from its end)
                        let mut b: Vec<u8> = (0..1 + rng.usize(300)).map(|_| rng.next_u32() as u8).collect();
                        b[0] = b'#';
                        b.extend_from_slice(&bytes);
                        bytes = b;
                        out.feat("zip_package_after_a_prefix");
                    }
                    run_history::<Xlsx<Cur>>(fmt, &|| Xlsx::new(cur_at(&bytes)).ok(), &book, true, &mut rng, out, &ctxj, &bytes);
                }
                "xlsb" => {
                    let mut ch = XlsbChoices::random(&mut rng);
                    ch.big_noise = false;
                    if with_vba {
                        ch.vba = Some(vba_bin(&mut rng));
                    }
                    let bytes = crate::enc::xlsb::encode(&book, &ch, &XlsbExtra::default(), &mut rng).bytes;
                    run_history::<Xlsb<Cur>>(fmt, &|| Xlsb::new(cur_at(&bytes)).ok(), &book, true, &mut rng, out, &ctxj, &bytes);
                }
                "xls" => {
                    let more = if with_vba {
                        let p = Project { codepage: 1252, modules: vec![Module { name: "Module1".into(), source: b"Sub a()\r\nEnd Sub\r\n".to_vec(), text_offset: 0, document: false, read_only: false, private: false }], references: vec![], compat_version: false };
                        ovba::project_entries(&p, Strategy::Greedy, Some("_VBA_PROJECT_CUR"), &mut rng, &mut Stats::default())
                    } else {
                        vec![]
                    };
                    let (bytes, _) = crate::enc::xls_file(&book, &BiffChoices::random(&mut rng), &BiffExtra::default(), &CfbChoices::random(&mut rng), &more, &mut rng);
                    run_history::<Xls<Cur>>(fmt, &|| Xls::new(cur_at(&bytes)).ok(), &book, false, &mut rng, out, &ctxj, &bytes);
                }
                _ => {
                    let bytes = crate::enc::ods::encode(&book, &OdsChoices::random(&mut rng), &mut rng).bytes;
                    run_history::<Ods<Cur>>(fmt, &|| Ods::new(cur_at(&bytes)).ok(), &book, false, &mut rng, out, &ctxj, &bytes);
                }
            }
        }
    }
}
