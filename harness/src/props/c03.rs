//! C03 — XLSB: every cell record reads back at its position with its value; formula cells
//! contribute their cached value; uninterpreted records never shift or drop neighbours.

use crate::core::*;
use crate::enc::biff8::rk_decode;
use crate::enc::xlsb::{self, XlsbChoices, XlsbExtra};
use crate::enc::zipw::{self, Part};
use crate::gen;
use crate::model::*;
use crate::monitor::guard;
use crate::prng::{hash_bytes, Rng};
use calamine::{Data, DataType, Reader, ReaderRef, Xlsb};
use serde_json::json;
use std::io::Cursor;

pub struct C03;

pub fn check_xlsb(book: &MBook, enc: &xlsb::Encoded, tag: &str, out: &mut UnitResult, ctx: &serde_json::Value) -> bool {
    let bytes = &enc.bytes;
    let fail = |out: &mut UnitResult, class: String, d: serde_json::Value| {
        let mut j = json!({"ctx": ctx, "detail": d});
        if bytes.len() < 300_000 {
            j["input_hex"] = json!(hex(bytes));
        }
        out.fail(class, j)
    };
    let mut wb = match guard(|| Xlsb::new(Cursor::new(bytes.clone()))) {
        Ok(Ok(w)) => w,
        Ok(Err(e)) => {
            fail(out, format!("{}|open_error|{}", tag, super::c01::err_variant(&e)), json!(format!("{:?}", e)));
            return false;
        }
        Err(f) => {
            fail(out, format!("{}|open|fault:{}", tag, f.class), json!(f.detail));
            return false;
        }
    };
    let mut ok = true;
    for (si, sh) in book.sheets.iter().enumerate() {
        if sh.kind != SheetKind::Work {
            continue;
        }
        let exp = xlsb::expect_values(book, sh);
        match guard(|| wb.worksheet_range(&sh.name)) {
            Ok(Ok(got)) => {
                out.sum("cells_compared", exp.cells.len() as u64);
                if let Some((sym, d)) = compare_range(&got, &exp, true) {
                    let cf = exp.cells.keys().find(|p| d.contains(&format!("({})", a1(**p)))).and_then(|p| enc.cell_feats.get(&(si, *p))).cloned().unwrap_or_else(|| "-".into());
                    fail(out, format!("{}|{}|{}", tag, sym, cf), json!({"sheet": sh.name, "what": d}));
                    ok = false;
                    continue;
                }
                let r2 = guard(|| {
                    wb.worksheet_range_ref(&sh.name).map(|r| (r.start(), r.end(), r.cells().map(|(_, _, v)| Data::from(v.clone())).collect::<Vec<_>>()))
                });
                match r2 {
                    Ok(Ok((s, e, cells))) => {
                        if s != got.start() || e != got.end() || cells.len() != got.cells().count() || !cells.iter().zip(got.cells()).all(|(a, b)| a == b.2) {
                            fail(out, format!("{}|range_ref_differs", tag), json!({"sheet": sh.name}));
                            ok = false;
                        }
                    }
                    Ok(Err(e)) => {
                        fail(out, format!("{}|range_ref_error|{}", tag, super::c01::err_variant(&e)), json!(format!("{:?}", e)));
                        ok = false;
                    }
                    Err(f) => {
                        fail(out, format!("{}|range_ref|fault:{}", tag, f.class), json!(f.detail));
                        ok = false;
                    }
                }
            }
            Ok(Err(e)) => {
                fail(out, format!("{}|read_error|{}", tag, super::c01::err_variant(&e)), json!(format!("{:?}", e)));
                ok = false;
            }
            Err(f) => {
                fail(out, format!("{}|read|fault:{}", tag, f.class), json!(f.detail));
                ok = false;
            }
        }
    }
    ok
}

/// one stored xlsb whose single sheet holds `n` BrtCellRk cells with the words lo, lo+step, ...
fn rk_file(words: &[u32]) -> Vec<u8> {
    let cols = 1024u32;
    let mut o = Vec::with_capacity(words.len() * 14 + 4096);
    xlsb::rec(&mut o, 0x0081, &[]);
    let rows = (words.len() as u32).div_ceil(cols);
    let mut d = vec![];
    for v in [0u32, rows - 1, 0, cols - 1] {
        d.extend_from_slice(&v.to_le_bytes());
    }
    xlsb::rec(&mut o, 0x0094, &d);
    xlsb::rec(&mut o, 0x0091, &[]);
    for (i, w) in words.iter().enumerate() {
        let (r, c) = (i as u32 / cols, i as u32 % cols);
        if c == 0 {
            let mut rh = r.to_le_bytes().to_vec();
            rh.extend_from_slice(&[0; 13]);
            xlsb::rec(&mut o, 0x0000, &rh);
        }
        let mut d = c.to_le_bytes().to_vec();
        d.extend_from_slice(&[0, 0, 0, 0]);
        d.extend_from_slice(&w.to_le_bytes());
        xlsb::rec(&mut o, 0x0002, &d);
    }
    xlsb::rec(&mut o, 0x0092, &[]);
    xlsb::rec(&mut o, 0x0082, &[]);
    let mut wbk = vec![];
    xlsb::rec(&mut wbk, 0x0083, &[]);
    xlsb::rec(&mut wbk, 0x008F, &[]);
    let mut d = 0u32.to_le_bytes().to_vec();
    d.extend_from_slice(&1u32.to_le_bytes());
    d.extend_from_slice(&xlsb::wide("rId1"));
    d.extend_from_slice(&xlsb::wide("S"));
    xlsb::rec(&mut wbk, 0x009C, &d);
    xlsb::rec(&mut wbk, 0x0090, &[]);
    xlsb::rec(&mut wbk, 0x0084, &[]);
    let rels = b"<Relationships xmlns=\"http://schemas.openxmlformats.org/package/2006/relationships\"><Relationship Id=\"rId1\" Type=\"t\" Target=\"worksheets/sheet1.bin\"/></Relationships>".to_vec();
    zipw::build(&[
        Part { name: "xl/workbook.bin".into(), data: wbk, deflate: false },
        Part { name: "xl/_rels/workbook.bin.rels".into(), data: rels, deflate: false },
        Part { name: "xl/worksheets/sheet1.bin".into(), data: o, deflate: false },
    ])
}

fn rk_sweep(words: Vec<u32>, out: &mut UnitResult) {
    let bytes = rk_file(&words);
    let r = guard(|| Xlsb::new(Cursor::new(bytes)).and_then(|mut w| w.worksheet_range("S")));
    let range = match r {
        Ok(Ok(r)) => r,
        Ok(Err(e)) => {
            out.fail(format!("c03|rk_sweep|read_error|{}", super::c01::err_variant(&e)), json!({"first_word": words[0], "err": format!("{:?}", e)}));
            return;
        }
        Err(f) => {
            out.fail(format!("c03|rk_sweep|fault:{}", f.class), json!({"first_word": words[0]}));
            return;
        }
    };
    for (i, w) in words.iter().enumerate() {
        let want = rk_decode(*w);
        let got = range.get((i / 1024, i % 1024));
        let ok = match got {
            Some(Data::Int(v)) => *w & 3 == 2 && *v as f64 == want,
            Some(Data::Float(v)) => *v == want || (v.is_nan() && want.is_nan()),
            _ => false,
        };
        if !ok {
            out.fail(format!("c03|rk_value|flags{}", w & 3), json!({"rk": w, "got": format!("{:?}", got), "want": want}));
            return;
        }
        let _ = got.and_then(|g| g.as_f64());
    }
    out.evals += words.len() as u64;
    out.distinct_by_construction += words.len() as u64;
    out.feat("rk_sweep_file");
}

const SWEEP_UNITS_Q: u64 = 16;
const SWEEP_UNITS_T: u64 = 4096;

impl Prop for C03 {
    fn id(&self) -> &'static str {
        "C03"
    }
    fn rule(&self) -> String {
        "random xlsb workbooks (rows 0..1048575, cols 0..16383; BrtCellBlank/Rk(4 flag combinations)/Real/Bool/Error/St/Isst and BrtFmlaNum/String/Bool/Error, styled cells, wrong BrtWsDim, rich/phonetic SST items) with 0..n ignorable records (real and future ids, 1- and 2-byte ids, payload lengths 0/1/127/128/16383/16384 and one >= 2 MiB, payload bytes that look like record headers) between any two records, compared with the model; RK words are swept through files of BrtCellRk cells (quick 2^22 structured words, thorough all 2^32). Non-trivial = workbook with >= 1 compared cell; distinct by hash of the file.".into()
    }
    fn assumptions(&self) -> Vec<String> {
        vec![
            "trusted base: the xlsb reference encoder ([MS-XLSB] record framing and cell records)".into(),
            "record type ids and lengths are written in their minimal varint form; BrtACBegin/BrtACEnd style block records are only emitted in pairs".into(),
        ]
    }
    fn units(&self, tier: Tier) -> u64 {
        tier.pick(SWEEP_UNITS_Q, SWEEP_UNITS_T) + tier.pick(16, 320)
    }
    fn exhaustive(&self, tier: Tier) -> Option<String> {
        (tier == Tier::Thorough).then(|| "RK decoding through files: all 2^32 RK words (4096 sheets of 2^20 BrtCellRk cells)".to_string())
    }
    fn wall_budget_s(&self, tier: Tier) -> u64 {
        tier.pick(600, 3 * 3600)
    }
    fn mandatory(&self, _t: Tier) -> Vec<String> {
        let mut v: Vec<String> = ["rk_sweep_file", "noise:id1B:len1B", "noise:id2B:len1B", "noise:id1B:len2B", "noise:id2B:len2B", "noise:id2B:len3B", "noise:id2B:len4B", "sst:rich", "dims_wrong", "string_at_length_limit", "error:getting_data"].iter().map(|s| s.to_string()).collect();
        for k in ["BrtCellBlank", "BrtCellRk:RkInt", "BrtCellRk:RkIntDiv100", "BrtCellRk:RkFloat", "BrtCellRk:RkFloatDiv100", "BrtCellReal", "BrtCellBool", "BrtCellError", "BrtCellSt", "BrtCellIsst", "BrtFmlaNum", "BrtFmlaString", "BrtFmlaBool", "BrtFmlaError"] {
            v.push(format!("rec:{}", k));
        }
        v
    }
    fn run_unit(&self, ctx: &Ctx, unit: u64, out: &mut UnitResult) {
        let sweep_units = ctx.tier.pick(SWEEP_UNITS_Q, SWEEP_UNITS_T);
        if unit < sweep_units {
            let words: Vec<u32> = if ctx.tier == Tier::Thorough {
                let lo = unit << 20;
                (lo..lo + (1 << 20)).map(|w| w as u32).collect()
            } else {
                // 2^18 words per unit: all flag combinations x structured high bits
                let mut rng = Rng::derive(ctx.seed, "c03rk", unit);
                (0..1u32 << 18)
                    .map(|i| {
                        let top = ((i >> 6) as u32 * 16 + unit as u32) & 0xFFF;
                        let mid = if i & 32 == 0 { 1u32 << (i % 18) } else { rng.next_u32() & 0x3FFFF };
                        (top << 20) | (mid << 2) | ((i >> 4) & 3)
                    })
                    .collect()
            };
            if out.samples.is_empty() {
                out.sample(json!({"rk_words": [words[0], words[1], words[words.len() - 1]], "count": words.len()}));
            }
            rk_sweep(words, out);
            return;
        }
        let n = ctx.tier.pick(20, 40);
        for i in 0..n {
            let mut rng = Rng::derive(ctx.seed, "c03", unit * 10_000 + i);
            let mut book = gen::gen_book(&mut rng, &gen::XLSX_LIMITS, &gen::GenOpts { empty_strings: true, max_sheets: 3, max_cells: ctx.tier.pick(40, 120), formulas: true, styles: true });
            let mut serial = 500 + rng.below(5000);
            for sh in book.sheets.iter_mut() {
                for (_, c) in sh.cells.iter_mut() {
                    serial += 1;
                    if let Val::Err(_) = c.val {
                        if serial % 4 == 0 {
                            c.val = Val::Err(ErrKind::GettingData);
                            out.feat("error:getting_data");
                        }
                    }
                    if let Val::Num(_) = c.val {
                        if rng.chance(2, 3) {
                            c.val = Val::Num(match rng.below(5) {
                                0 => serial as f64,
                                1 => -(serial as f64),
                                2 => serial as f64 / 100.0,
                                3 => -(serial as f64) - 0.37,
                                _ => serial as f64 * 0.25,
                            });
                        }
                    }
                }
            }
            if i % 7 == 3 {
                // strings at the 32767-character limit: their records are longer than 65536 bytes
                if let Some(sh) = book.sheets.first_mut() {
                    // directly below (or, at the last row, directly above) the existing cells: the
                    // range is dense, the bounding box must stay small
                    let (lo, hi) = (sh.cells.keys().map(|p| p.0).min().unwrap_or(0), sh.cells.keys().map(|p| p.0).max().unwrap_or(0));
                    let r = if hi < 1_048_575 { hi + 1 } else { lo.saturating_sub(1) };
                    let c0 = sh.cells.keys().map(|p| p.1).min().unwrap_or(0).min(16_000);
                    for (c, n) in [32_767usize, 32_766, 32_763].iter().enumerate() {
                        let c = c + c0 as usize;
                        let unit = ["ab", "\u{e9}\u{65e5}"][c % 2];
                        let n = *n;
                        let mut s: String = format!("long{}@{}:", c, r);
                        s.extend(unit.chars().cycle().take(n - s.chars().count()));
                        sh.cells.insert((r, c as u32), MCell::v(Val::Str(s)));
                    }
                    out.feat("string_at_length_limit");
                }
            }
            for k in 0..ctx.tier.pick(4, 6) {
                let ch = if k == 0 { XlsbChoices::default() } else { XlsbChoices::random(&mut rng) };
                if ch.dims_wrong {
                    out.feat("dims_wrong");
                }
                let enc = xlsb::encode(&book, &ch, &XlsbExtra::default(), &mut rng);
                for (kf, n) in &enc.counts {
                    out.feat_n(kf, *n);
                }
                for f in enc.cell_feats.values() {
                    out.feat(&format!("rec:{}", f));
                }
                let cj = json!({"unit": unit, "model": i, "encoding": k, "choices": format!("{:?}", ch)});
                check_xlsb(&book, &enc, "c03", out, &cj);
                let cells: usize = book.sheets.iter().map(|s| s.cells.len()).sum();
                out.case(if cells > 0 { Some(hash_bytes(&enc.bytes)) } else { None });
                if out.samples.len() < 2 && cells > 0 && k == 1 {
                    out.sample(json!({"cells": enc.cell_feats.iter().take(5).map(|(k, f)| format!("{}:{}", a1(k.1), f)).collect::<Vec<_>>(), "noise": enc.counts, "file_bytes": enc.bytes.len()}));
                }
            }
        }
    }
}
