//! C20 — encrypted workbooks are reported as password protected, and only those.

use crate::core::*;
use crate::enc::biff8::{self, BiffChoices, BiffExtra, FilePass};
use crate::enc::cfb::{self, CfbChoices, Entry};
use crate::enc::ods::{self, OdsChoices};
use crate::enc::xlsb::{XlsbChoices, XlsbExtra};
use crate::enc::xlsx::XlsxChoices;
use crate::gen;
use crate::monitor::guard;
use crate::prng::{hash_bytes, Rng};
use calamine::{Ods, OdsError, Reader, Xls, XlsError, Xlsb, XlsbError, Xlsx, XlsxError};
use serde_json::json;
use std::io::Cursor;

pub struct C20;

fn rand_bytes(rng: &mut Rng, n: usize) -> Vec<u8> {
    (0..n).map(|_| rng.next_u32() as u8).collect()
}

fn encryption_info(rng: &mut Rng, out: &mut UnitResult) -> Vec<u8> {
    match rng.below(3) {
        0 => {
            out.feat("info:standard");
            let mut v = vec![3, 0, 2, 0, 0x24, 0, 0, 0];
            v.extend(rand_bytes(rng, 160));
            v
        }
        1 => {
            out.feat("info:agile");
            let mut v = vec![4, 0, 4, 0, 0x40, 0, 0, 0];
            v.extend_from_slice(b"<?xml version=\"1.0\" encoding=\"UTF-8\" standalone=\"yes\"?><encryption xmlns=\"http://schemas.microsoft.com/office/2006/encryption\"><keyData saltSize=\"16\" blockSize=\"16\" keyBits=\"256\" hashSize=\"64\" cipherAlgorithm=\"AES\" cipherChaining=\"ChainingModeCBC\" hashAlgorithm=\"SHA512\" saltValue=\"AAAA\"/></encryption>");
            v
        }
        _ => {
            out.feat("info:extensible");
            let mut v = vec![3, 0, 3, 0, 0x24, 0, 0, 0];
            v.extend(rand_bytes(rng, 300));
            v
        }
    }
}

fn is_pw<T, E: std::fmt::Debug>(r: &Result<T, E>, pw: impl Fn(&E) -> bool) -> Result<(), String> {
    match r {
        Err(e) if pw(e) => Ok(()),
        Err(e) => Err(format!("other_error:{}", super::c01::err_variant(e))),
        Ok(_) => Err("opened".into()),
    }
}

impl Prop for C20 {
    fn id(&self) -> &'static str {
        "C20"
    }
    fn rule(&self) -> String {
        "(a) encrypted OOXML packages: compound files with EncryptionInfo (standard / agile / extensible, random bodies), an EncryptedPackage of 0..2 MiB (below and above the mini-stream cutoff) and the DataSpaces storage tree, in random physical layouts, opened as Xlsx and as Xlsb; (b) BIFF8 workbooks with FILEPASS (XOR, RC4, RC4-CryptoAPI) at every position of the globals before the first BoundSheet, remaining payloads replaced by random bytes, and BIFF5-style 4-byte FILEPASS; (c) ods manifests with 1..4 encrypted entries and ciphertext content; converse: unencrypted workbooks of all four formats must not report Password. Non-trivial = every encrypted container; distinct by hash of the file.".into()
    }
    fn assumptions(&self) -> Vec<String> {
        vec!["trusted base: the reference encoders; ciphertext is random bytes (no real cipher is needed to exercise detection)".into()]
    }
    fn units(&self, tier: Tier) -> u64 {
        tier.pick(16, 160)
    }
    fn mandatory(&self, _t: Tier) -> Vec<String> {
        ["info:standard", "info:agile", "info:extensible", "package:mini", "package:regular", "package:empty", "package:difat", "package:fat_237_sectors", "reader_not_at_start", "ods:plain_entries_listed_first", "ods:encrypt:first_entries", "ods:encrypt:not_content_xml", "ods:encrypt:whole_package", "ooxml:sector:4096", "ooxml:dir_holes", "ooxml:no_mini_stream", "filepass:xor", "filepass:rc4", "filepass:cryptoapi", "filepass:biff5", "filepass:position>0", "ods:encrypted_entries:1", "ods:encrypted_entries:>1", "plain:xlsx", "plain:xlsb", "plain:xls", "plain:ods"]
            .iter().map(|s| s.to_string()).collect()
    }
    fn run_unit(&self, ctx: &Ctx, unit: u64, out: &mut UnitResult) {
        let mut rng = Rng::derive(ctx.seed, "c20", unit);
        let n = ctx.tier.pick(12, 60);
        for i in 0..n {
            // ---- (a) OOXML
            let info = encryption_info(&mut rng, out);
            let plen = match rng.below(6) {
                _ if unit == 0 && i == 1 => {
                    // a package large enough for the container to need a DIFAT sector (> 109 FAT sectors)
                    out.feat("package:difat");
                    7_300_000 + rng.usize(500_000)
                }
                0 => {
                    out.feat("package:empty");
                    0
                }
                1 | 2 => {
                    out.feat("package:mini");
                    8 + rng.usize(4000)
                }
                3 if ctx.tier == Tier::Thorough => {
                    out.feat("package:regular");
                    500_000 + rng.usize(1_500_000)
                }
                _ => {
                    out.feat("package:regular");
                    4096 + rng.usize(40_000)
                }
            };
            let mut entries = vec![];
            // DataSpaces storage tree as Office writes it
            entries.push(Entry { name: "\u{6}DataSpaces".into(), data: None, parent: None });
            entries.push(Entry { name: "Version".into(), data: Some(rand_bytes(&mut rng, 76)), parent: Some(0) });
            entries.push(Entry { name: "DataSpaceMap".into(), data: Some(rand_bytes(&mut rng, 112)), parent: Some(0) });
            entries.push(Entry { name: "DataSpaceInfo".into(), data: None, parent: Some(0) });
            entries.push(Entry { name: "StrongEncryptionDataSpace".into(), data: Some(rand_bytes(&mut rng, 64)), parent: Some(3) });
            let mut info = info;
            if i % 5 == 4 && plen >= 4096 {
                // a container without any stream below the mini-stream cutoff (no mini stream)
                entries.clear();
                info.extend(rand_bytes(&mut rng, 5000));
                entries.push(Entry::stream("Padding", rand_bytes(&mut rng, 4096)));
                out.feat("ooxml:no_mini_stream");
            }
            entries.push(Entry::stream("EncryptionInfo", info));
            entries.push(Entry::stream("EncryptedPackage", rand_bytes(&mut rng, plen)));
            if rng.bool() {
                let n = entries.len();
                entries.swap(n - 2, n - 1);
            }
            let mut cc = if i == 0 { CfbChoices::default() } else { CfbChoices::random(&mut rng) };
            if plen >= 7_000_000 {
                cc.v4 = false; // 512-byte sectors: more than 109 FAT sectors, hence a DIFAT sector
            }
            if cc.v4 {
                out.feat("ooxml:sector:4096");
            }
            if cc.dir_holes {
                out.feat("ooxml:dir_holes");
            }
            let mut built = cfb::build(&entries, &cc, &mut rng);
            if unit == 0 && i == 2 {
                // a FAT of exactly 109 + 128 sectors: the second DIFAT sector holds a single entry
                // (a DIFAT sector lists 127 FAT sectors, its last slot links to the next one)
                let mut cc2 = CfbChoices::default();
                cc2.difat_backwards = rng.bool();
                let mut plen2 = 15_400_000usize;
                for _ in 0..6 {
                    let n = entries.len();
                    let at = entries.iter().position(|e| e.name == "EncryptedPackage").unwrap_or(n - 1);
                    entries[at] = Entry::stream("EncryptedPackage", rand_bytes(&mut rng, plen2));
                    built = cfb::build(&entries, &cc2, &mut rng);
                    if built.n_fat_sectors == 237 {
                        out.feat("package:fat_237_sectors");
                        break;
                    }
                    plen2 = (plen2 as i64 + (237 - built.n_fat_sectors as i64) * 128 * 512 - 20_000).max(4096) as usize;
                }
            }
            let layout = format!("{}|{}", if cc.v4 { "v4" } else { "v3" }, if built.n_mini_sectors > 0 { "mini" } else { "nomini" });
            let ctxj = json!({"unit": unit, "case": i, "package_len": plen, "layout": format!("{:?}", cc)});
            let keep = |b: &[u8]| if b.len() < 200_000 { json!(hex(b)) } else { json!(null) };
            // the reader handed over need not be positioned at the start (a caller may have
            // sniffed the file first): every other case opens from a cursor left somewhere else
            let at = |rng: &mut Rng| -> Cursor<Vec<u8>> {
                let mut c = Cursor::new(built.bytes.clone());
                if i % 2 == 1 {
                    c.set_position(*rng.pick(&[8u64, 512, built.bytes.len() as u64 / 2, built.bytes.len() as u64]));
                }
                c
            };
            if i % 2 == 1 {
                out.feat("reader_not_at_start");
            }
            let (c1, c2) = (at(&mut rng), at(&mut rng));
            match guard(|| Xlsx::new(c1)) {
                Ok(r) => {
                    if let Err(sym) = is_pw(&r, |e| matches!(e, XlsxError::Password)) {
                        out.fail(format!("c20|ooxml_as_xlsx|{}|{}", sym, layout), json!({"ctx": ctxj, "input_hex": keep(&built.bytes)}));
                    }
                }
                Err(f) => out.fail(format!("c20|ooxml_as_xlsx|fault:{}", f.class), json!({"ctx": ctxj, "input_hex": keep(&built.bytes)})),
            }
            match guard(|| Xlsb::new(c2)) {
                Ok(r) => {
                    if let Err(sym) = is_pw(&r, |e| matches!(e, XlsbError::Password)) {
                        out.fail(format!("c20|ooxml_as_xlsb|{}|{}", sym, layout), json!({"ctx": ctxj, "input_hex": keep(&built.bytes)}));
                    }
                }
                Err(f) => out.fail(format!("c20|ooxml_as_xlsb|fault:{}", f.class), json!({"ctx": ctxj, "input_hex": keep(&built.bytes)})),
            }
            out.case(Some(hash_bytes(&built.bytes[..built.bytes.len().min(100_000)])));
            if out.samples.is_empty() {
                out.sample(ctxj);
            }
            // ---- (b) FILEPASS
            let book = gen::gen_book(&mut rng, &gen::XLS_LIMITS, &gen::GenOpts { empty_strings: false, max_sheets: 2, max_cells: 20, formulas: false, styles: true });
            let kind = (i % 3) as u8;
            out.feat(["filepass:xor", "filepass:rc4", "filepass:cryptoapi"][kind as usize]);
            let mut bc = BiffChoices::random(&mut rng);
            let position = if i % 2 == 0 { 0 } else { rng.usize(12) };
            if position > 0 {
                out.feat("filepass:position>0");
            }
            bc.filepass = Some(FilePass { kind, position });
            let enc = biff8::encode(&book, &bc, &BiffExtra::default(), &mut rng);
            // everything after FILEPASS is ciphertext: randomise the payloads, keep the framing
            let mut s = enc.stream.clone();
            let mut at = 0;
            let mut after = false;
            while at + 4 <= s.len() {
                let t = u16::from_le_bytes([s[at], s[at + 1]]);
                let l = u16::from_le_bytes([s[at + 2], s[at + 3]]) as usize;
                if after && t != 0x0809 && t != 0x000A && t != 0x0085 {
                    for b in s[at + 4..at + 4 + l].iter_mut() {
                        *b = rng.next_u32() as u8;
                    }
                }
                if t == 0x002F {
                    after = true;
                }
                at += 4 + l;
            }
            let file = cfb::build(&[Entry::stream("Workbook", s)], &CfbChoices::random(&mut rng), &mut rng).bytes;
            let cj = json!({"unit": unit, "case": i, "filepass_kind": kind, "position": position});
            match guard(|| Xls::new(Cursor::new(file.clone()))) {
                Ok(r) => {
                    if let Err(sym) = is_pw(&r, |e| matches!(e, XlsError::Password)) {
                        out.fail(format!("c20|filepass|{}|kind{}", sym, kind), json!({"ctx": cj, "input_hex": hex(&file)}));
                    }
                }
                Err(f) => out.fail(format!("c20|filepass|fault:{}|kind{}", f.class, kind), json!({"ctx": cj, "input_hex": hex(&file)})),
            }
            out.case(Some(hash_bytes(&file)));
            if i % 4 == 0 {
                // BIFF5-style workbook: 8-byte BOF, FILEPASS without the encryption-type field
                out.feat("filepass:biff5");
                let mut s = vec![];
                biff8::rec(&mut s, 0x0809, &[0x00, 0x05, 0x05, 0x00, 0xBB, 0x0D, 0xCC, 0x07]);
                biff8::rec(&mut s, 0x002F, &[rng.next_u32() as u8, rng.next_u32() as u8, 0x34, 0x12]);
                biff8::rec(&mut s, 0x0042, &rand_bytes(&mut rng, 2));
                biff8::rec(&mut s, 0x0085, &[0x40, 0, 0, 0, 0, 0, 3, b'a', b'b', b'c']);
                biff8::rec(&mut s, 0x000A, &[]);
                let file = cfb::build(&[Entry::stream("Book", s)], &CfbChoices::default(), &mut rng).bytes;
                match guard(|| Xls::new(Cursor::new(file.clone()))) {
                    Ok(r) => {
                        if let Err(sym) = is_pw(&r, |e| matches!(e, XlsError::Password)) {
                            out.fail(format!("c20|filepass_biff5|{}", sym), json!({"input_hex": hex(&file)}));
                        }
                    }
                    Err(f) => out.fail(format!("c20|filepass_biff5|fault:{}", f.class), json!({"input_hex": hex(&file)})),
                }
                out.case(Some(hash_bytes(&file)));
            }
            // ---- (c) ods
            let mut oc = OdsChoices::random(&mut rng);
            oc.encrypted_entries = 1 + (i as usize % 4);
            oc.plain_entries_first = (i / 4) % 2 == 1;
            oc.encrypt_mode = [0u8, 0, 1, 2][(i as usize / 2) % 4];
            out.feat(["ods:encrypt:first_entries", "ods:encrypt:not_content_xml", "ods:encrypt:whole_package"][oc.encrypt_mode as usize]);
            if oc.plain_entries_first {
                out.feat("ods:plain_entries_listed_first");
            }
            out.feat(if oc.encrypted_entries == 1 { "ods:encrypted_entries:1" } else { "ods:encrypted_entries:>1" });
            let o = ods::encode(&book, &oc, &mut rng);
            match guard(|| Ods::new(Cursor::new(o.bytes.clone()))) {
                Ok(r) => {
                    if let Err(sym) = is_pw(&r, |e| matches!(e, OdsError::Password)) {
                        out.fail(format!("c20|ods|{}", sym), json!({"encrypted_entries": oc.encrypted_entries, "input_hex": hex(&o.bytes)}));
                    }
                }
                Err(f) => out.fail(format!("c20|ods|fault:{}", f.class), json!({"input_hex": hex(&o.bytes)})),
            }
            out.case(Some(hash_bytes(&o.bytes)));
            // ---- converse: the same logical workbook, unencrypted, in all four formats
            let plain_xlsx = crate::enc::xlsx::encode(&book, &XlsxChoices::random(&mut rng), &mut rng).bytes;
            let plain_xlsb = crate::enc::xlsb::encode(&book, &XlsbChoices::random(&mut rng), &XlsbExtra::default(), &mut rng).bytes;
            let (plain_xls, _) = crate::enc::xls_file(&book, &BiffChoices::random(&mut rng), &BiffExtra::default(), &CfbChoices::random(&mut rng), &[], &mut rng);
            let plain_ods = ods::encode(&book, &OdsChoices::random(&mut rng), &mut rng).bytes;
            let conv = |name: &str, pw: bool, out: &mut UnitResult, bytes: &[u8]| {
                out.feat(&format!("plain:{}", name));
                if pw {
                    out.fail(format!("c20|password_on_unencrypted|{}", name), json!({"input_hex": hex(bytes)}));
                }
            };
            conv("xlsx", matches!(guard(|| Xlsx::new(Cursor::new(plain_xlsx.clone()))), Ok(Err(XlsxError::Password))), out, &plain_xlsx);
            conv("xlsb", matches!(guard(|| Xlsb::new(Cursor::new(plain_xlsb.clone()))), Ok(Err(XlsbError::Password))), out, &plain_xlsb);
            conv("xls", matches!(guard(|| Xls::new(Cursor::new(plain_xls.clone()))), Ok(Err(XlsError::Password))), out, &plain_xls);
            conv("ods", matches!(guard(|| Ods::new(Cursor::new(plain_ods.clone()))), Ok(Err(OdsError::Password))), out, &plain_ods);
        }
    }
}
