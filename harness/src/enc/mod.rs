pub mod biff8;
pub mod cfb;
pub mod ods;
pub mod ovba;
pub mod xlsb;
pub mod xlsx;
pub mod xml;
pub mod zipw;

use crate::model::MBook;
use crate::prng::Rng;

/// a complete .xls file: BIFF8 workbook stream inside a compound file (+ optional extra streams)
pub fn xls_file(
    book: &MBook,
    bc: &biff8::BiffChoices,
    extra: &biff8::BiffExtra,
    cc: &cfb::CfbChoices,
    more: &[cfb::Entry],
    rng: &mut Rng,
) -> (Vec<u8>, biff8::Encoded) {
    let enc = biff8::encode(book, bc, extra, rng);
    let mut entries = vec![cfb::Entry::stream("Workbook", enc.stream.clone())];
    entries.extend_from_slice(more);
    let built = cfb::build(&entries, cc, rng);
    (built.bytes, enc)
}
