pub mod xlsx;
pub mod xml;
pub mod zipw;
