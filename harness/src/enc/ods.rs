//! Reference ODS (OpenDocument spreadsheet) encoder, written from ODF 1.2 part 1 (§9 tables,
//! §19.385 value types). The physical variation of interest is the run-length plan: how runs of
//! identical cells / rows (including empty ones) are grouped into repeated elements.

use super::xml;
use super::zipw::{self, Part};
use crate::model::*;
use crate::prng::Rng;
use calamine::Data;
use std::collections::BTreeMap;

#[derive(Clone, Copy, Debug, PartialEq, Eq)]
pub enum Trailing {
    /// nothing after the last used cell / row
    Absent,
    /// a few explicit empty elements
    Explicit,
    /// what LibreOffice writes: one empty element repeated up to the sheet limit
    Huge,
}

#[derive(Clone, Copy, Debug, PartialEq, Eq)]
pub enum CutMode {
    /// every maximal run is one repeated element
    Maximal,
    /// every cell / row written individually (no repeat attributes)
    Explicit,
    /// runs cut at random points
    Random,
}

#[derive(Clone, Debug)]
pub struct OdsChoices {
    pub cuts: CutMode,
    pub trailing: Trailing,
    /// string cells: text in text:p content (else office:string-value attribute)
    pub text_content: bool,
    /// office:value-type written after the value attribute
    pub type_last: bool,
    pub covered_empties: bool,
    /// wrap runs of rows in table:table-header-rows / table:table-row-group / table:table-rows
    pub row_wrappers: bool,
    pub deflate: bool,
    /// encrypted entries in the manifest (C20)
    pub encrypted_entries: usize,
    /// manifest lists the unencrypted regular files (incl. a thumbnail) before the encrypted ones
    pub plain_entries_first: bool,
    /// which entries carry encryption data: 0 = the first `encrypted_entries` (content.xml first),
    /// 1 = only entries other than content.xml, 2 = ODF 1.4 whole-package encryption (a single
    /// encrypted `encrypted-package` entry, no content.xml in the archive)
    pub encrypt_mode: u8,
    /// a <table:dde-links> block (with its nameless cached-value table) after the sheets
    pub dde_links: bool,
    pub text_mode: xml::TextMode,
}

impl Default for OdsChoices {
    fn default() -> Self {
        OdsChoices {
            cuts: CutMode::Maximal,
            trailing: Trailing::Huge,
            text_content: true,
            type_last: false,
            covered_empties: false,
            row_wrappers: false,
            deflate: true,
            encrypted_entries: 0,
            plain_entries_first: false,
            encrypt_mode: 0,
            dde_links: false,
            text_mode: xml::TextMode::Entities,
        }
    }
}

impl OdsChoices {
    pub fn random(rng: &mut Rng) -> OdsChoices {
        OdsChoices {
            cuts: *rng.pick(&[CutMode::Maximal, CutMode::Explicit, CutMode::Random, CutMode::Random]),
            trailing: *rng.pick(&[Trailing::Absent, Trailing::Explicit, Trailing::Huge]),
            text_content: rng.bool(),
            type_last: rng.chance(1, 3),
            covered_empties: rng.chance(1, 4),
            row_wrappers: rng.chance(1, 3),
            deflate: rng.bool(),
            encrypted_entries: 0,
            plain_entries_first: false,
            encrypt_mode: 0,
            dde_links: rng.chance(1, 3),
            text_mode: *rng.pick(&xml::TEXT_MODES),
        }
    }
    pub fn features(&self) -> Vec<String> {
        let mut f = vec![
            format!("cuts:{:?}", self.cuts),
            format!("trailing:{:?}", self.trailing),
            if self.text_content { "text:p".into() } else { "string-value".into() },
        ];
        if self.dde_links {
            f.push("ods:dde_links".into());
        }
        f
    }
}

const NS: &str = "xmlns:office=\"urn:oasis:names:tc:opendocument:xmlns:office:1.0\" xmlns:style=\"urn:oasis:names:tc:opendocument:xmlns:style:1.0\" xmlns:text=\"urn:oasis:names:tc:opendocument:xmlns:text:1.0\" xmlns:table=\"urn:oasis:names:tc:opendocument:xmlns:table:1.0\" xmlns:fo=\"urn:oasis:names:tc:opendocument:xmlns:xsl-fo-compatible:1.0\" xmlns:number=\"urn:oasis:names:tc:opendocument:xmlns:datastyle:1.0\" xmlns:of=\"urn:oasis:names:tc:opendocument:xmlns:of:1.2\" xmlns:calcext=\"urn:org:documentfoundation:names:experimental:calc:xmlns:calcext:1.0\" xmlns:xlink=\"http://www.w3.org/1999/xlink\" xmlns:dc=\"http://purl.org/dc/elements/1.1/\"";

pub const MIMETYPE: &str = "application/vnd.oasis.opendocument.spreadsheet";

/// text:p content for one paragraph: runs of spaces beyond a single interior one via text:s
fn paragraph(p: &str, rng: &mut Rng, mode: xml::TextMode, counts: &mut BTreeMap<String, u64>) -> String {
    let chars: Vec<char> = p.chars().collect();
    let mut out = String::new();
    let mut seg = String::new();
    let mut i = 0;
    let flush = |seg: &mut String, out: &mut String, rng: &mut Rng| {
        if !seg.is_empty() {
            let t = xml::text(seg, mode, rng);
            // optional text:span run
            if rng.chance(1, 5) {
                out.push_str(&format!("<text:span text:style-name=\"T1\">{}</text:span>", t));
            } else {
                out.push_str(&t);
            }
            seg.clear();
        }
    };
    while i < chars.len() {
        if chars[i] == ' ' {
            let mut n = 0;
            while i + n < chars.len() && chars[i + n] == ' ' {
                n += 1;
            }
            let leading = i == 0;
            let trailing = i + n == chars.len();
            if n == 1 && !leading && !trailing {
                seg.push(' ');
            } else {
                // first space literal only in the interior; the rest (or all) as text:s
                let mut rest = n;
                if !leading && !trailing && rng.bool() {
                    seg.push(' ');
                    rest -= 1;
                }
                flush(&mut seg, &mut out, rng);
                if rest == 1 && rng.bool() {
                    out.push_str("<text:s/>");
                } else if rest > 0 {
                    out.push_str(&format!("<text:s text:c=\"{}\"/>", rest));
                }
                *counts.entry("text:s".into()).or_insert(0) += 1;
            }
            i += n;
        } else {
            seg.push(chars[i]);
            i += 1;
        }
    }
    flush(&mut seg, &mut out, rng);
    out
}

fn cell_xml(c: Option<&MCell>, repeat: u32, ch: &OdsChoices, rng: &mut Rng, covered: bool, counts: &mut BTreeMap<String, u64>) -> String {
    let rep = if repeat > 1 { format!(" table:number-columns-repeated=\"{}\"", repeat) } else { String::new() };
    let elem = if covered { "table:covered-table-cell" } else { "table:table-cell" };
    let Some(c) = c else {
        return format!("<{}{}/>", elem, rep);
    };
    let formula = c.formula.as_ref().map_or(String::new(), |f| format!(" table:formula=\"{}\"", xml::attr(f)));
    let ty = |t: &str| format!(" office:value-type=\"{}\"", t);
    let put = |t: String, v: String, ch: &OdsChoices| if ch.type_last { format!("{}{}", v, t) } else { format!("{}{}", t, v) };
    let (attrs, body) = match &c.val {
        Val::Num(x) => {
            let shown = format!("<text:p>{}</text:p>", x);
            match c.xf.unwrap_or(0) % 3 {
                1 => (put(ty("percentage"), format!(" office:value=\"{}\"", x), ch), shown),
                2 => (put(ty("currency"), format!(" office:currency=\"EUR\" office:value=\"{}\"", x), ch), shown),
                _ => (put(ty("float"), format!(" office:value=\"{}\"", x), ch), shown),
            }
        }
        Val::Bool(b) => (put(ty("boolean"), format!(" office:boolean-value=\"{}\"", b), ch), format!("<text:p>{}</text:p>", if *b { "TRUE" } else { "FALSE" })),
        Val::IsoDate(s) => (put(ty("date"), format!(" office:date-value=\"{}\"", s), ch), "<text:p>date</text:p>".to_string()),
        Val::IsoDuration(s) => (put(ty("time"), format!(" office:time-value=\"{}\"", s), ch), "<text:p>time</text:p>".to_string()),
        Val::Str(s) => {
            let single_par = !s.contains('\n');
            let plain_spaces = !s.starts_with(' ') && !s.ends_with(' ') && !s.contains("  ");
            if !ch.text_content && single_par && plain_spaces {
                *counts.entry("str:string-value".into()).or_insert(0) += 1;
                // the attribute is the value; the paragraph is only its rendering, which may be
                // the same text, a formatted variant of it, or absent
                let body = match rng.below(3) {
                    0 => format!("<text:p>{}</text:p>", xml::text(s, xml::TextMode::Entities, rng)),
                    1 => {
                        *counts.entry("str:string-value:rendering_differs".into()).or_insert(0) += 1;
                        format!("<text:p>shown: {} !</text:p>", xml::text(s, xml::TextMode::Entities, rng))
                    }
                    _ => {
                        *counts.entry("str:string-value:no_rendering".into()).or_insert(0) += 1;
                        String::new()
                    }
                };
                (put(ty("string"), format!(" office:string-value=\"{}\"", xml::attr(s)), ch), body)
            } else {
                *counts.entry("str:text:p".into()).or_insert(0) += 1;
                let mut body = String::new();
                for p in s.split('\n') {
                    let inner = paragraph(p, rng, ch.text_mode, counts);
                    if inner.is_empty() {
                        body.push_str("<text:p/>");
                    } else {
                        body.push_str(&format!("<text:p>{}</text:p>", inner));
                    }
                }
                if !single_par {
                    *counts.entry("str:multi_paragraph".into()).or_insert(0) += 1;
                }
                (ty("string"), body)
            }
        }
        Val::Err(_) | Val::Blank => (String::new(), String::new()),
    };
    let style = if c.xf.is_some() && rng.bool() { " table:style-name=\"ce1\"" } else { "" };
    if attrs.is_empty() && body.is_empty() && formula.is_empty() {
        return format!("<{}{}{}/>", elem, style, rep);
    }
    format!("<{0}{1}{2}{3}{4}>{5}</{0}>", elem, style, formula, attrs, rep, body)
}

fn same(a: Option<&MCell>, b: Option<&MCell>) -> bool {
    match (a, b) {
        (None, None) => true,
        (Some(x), Some(y)) => x.val == y.val && x.formula == y.formula && x.xf == y.xf,
        _ => false,
    }
}

/// cuts a run of length n into pieces according to the plan
fn cut(n: u32, mode: CutMode, rng: &mut Rng) -> Vec<u32> {
    match mode {
        CutMode::Maximal => vec![n],
        CutMode::Explicit if n <= 64 => vec![1; n as usize],
        CutMode::Explicit => vec![1, n - 2, 1],
        CutMode::Random => {
            let mut left = n;
            let mut v = vec![];
            while left > 0 {
                let k = if rng.bool() { 1 } else { rng.range_u32(1, left) };
                v.push(k);
                left -= k;
            }
            v
        }
    }
}

pub struct Encoded {
    pub bytes: Vec<u8>,
    pub counts: BTreeMap<String, u64>,
}

pub fn encode(book: &MBook, ch: &OdsChoices, rng: &mut Rng) -> Encoded {
    let mut counts = BTreeMap::new();
    let mut x = String::from("<?xml version=\"1.0\" encoding=\"UTF-8\"?>\n");
    x.push_str(&format!("<office:document-content {} office:version=\"1.2\">", NS));
    x.push_str("<office:scripts/><office:font-face-decls/><office:automatic-styles>");
    x.push_str("<style:style style:name=\"co1\" style:family=\"table-column\"><style:table-column-properties fo:break-before=\"auto\" style:column-width=\"22.58mm\"/></style:style>");
    x.push_str("<style:style style:name=\"ta_v\" style:family=\"table\" style:master-page-name=\"Default\"><style:table-properties table:display=\"true\" style:writing-mode=\"lr-tb\"/></style:style>");
    x.push_str("<style:style style:name=\"ta_h\" style:family=\"table\" style:master-page-name=\"Default\"><style:table-properties table:display=\"false\" style:writing-mode=\"lr-tb\"/></style:style>");
    x.push_str("<style:style style:name=\"ce1\" style:family=\"table-cell\" style:parent-style-name=\"Default\"/>");
    x.push_str("</office:automatic-styles><office:body><office:spreadsheet>");
    for sh in &book.sheets {
        let style = match sh.visible {
            Visible::Visible => {
                if rng.chance(1, 3) {
                    String::new()
                } else {
                    " table:style-name=\"ta_v\"".into()
                }
            }
            _ => " table:style-name=\"ta_h\"".into(),
        };
        x.push_str(&format!("<table:table table:name=\"{}\"{}>", xml::attr(&sh.name), style));
        let max_col = sh.cells.keys().map(|p| p.1).max();
        let max_row = sh.cells.keys().map(|p| p.0).max();
        x.push_str(&format!("<table:table-column table:style-name=\"co1\" table:number-columns-repeated=\"{}\" table:default-cell-style-name=\"Default\"/>", max_col.map_or(1, |c| c + 1)));
        // rows as vectors of optional cells up to the sheet's last used column
        let width = max_col.map_or(0, |c| c + 1);
        let row_cells = |r: u32| -> Vec<Option<&MCell>> { (0..width).map(|c| sh.cells.get(&(r, c))).collect() };
        let row_xml = |cells: &[Option<&MCell>], rng: &mut Rng, counts: &mut BTreeMap<String, u64>| -> String {
            let mut s = String::new();
            // last non-empty cell of this row
            let last = cells.iter().rposition(|c| c.is_some());
            let upto = match (last, ch.trailing) {
                (None, _) => 0,
                (Some(l), _) => l + 1,
            };
            let mut i = 0;
            while i < upto {
                let mut n = 1;
                while i + n < upto && same(cells[i], cells[i + n]) {
                    n += 1;
                }
                for k in cut(n as u32, ch.cuts, rng) {
                    let covered = cells[i].is_none() && ch.covered_empties && rng.bool();
                    if covered {
                        *counts.entry("covered_cell".into()).or_insert(0) += 1;
                    }
                    if k > 1 {
                        *counts.entry(if cells[i].is_some() { "repeated_value_cell" } else { "repeated_empty_cell" }.into()).or_insert(0) += 1;
                    }
                    s.push_str(&cell_xml(cells[i], k, ch, rng, covered, counts));
                }
                i += n;
            }
            // trailing empties of the row
            match ch.trailing {
                Trailing::Absent if upto > 0 => {}
                Trailing::Absent => s.push_str("<table:table-cell/>"),
                Trailing::Explicit => {
                    for _ in 0..1 + rng.usize(3) {
                        s.push_str("<table:table-cell/>");
                    }
                }
                Trailing::Huge => s.push_str(&format!("<table:table-cell table:number-columns-repeated=\"{}\"/>", 16_384 - upto.min(16_000))),
            }
            s
        };
        let mut open_wrappers: Vec<&str> = vec![];
        let mut wrap_depth = 0usize;
        let mut header_used = false;
        if let Some(max_row) = max_row {
            let mut r = 0u32;
            while r <= max_row {
                let cells = row_cells(r);
                let mut n = 1u32;
                while r + n <= max_row && {
                    let next = row_cells(r + n);
                    next.len() == cells.len() && next.iter().zip(cells.iter()).all(|(a, b)| same(*a, *b))
                } {
                    n += 1;
                }
                let empty = cells.iter().all(|c| c.is_none());
                for k in cut(n, ch.cuts, rng) {
                    let rep = if k > 1 { format!(" table:number-rows-repeated=\"{}\"", k) } else { String::new() };
                    if k > 1 {
                        *counts.entry(if empty { "repeated_empty_row" } else { "repeated_value_row" }.into()).or_insert(0) += 1;
                    }
                    if empty {
                        *counts.entry(if r == 0 { "leading_empty_rows" } else { "interior_empty_rows" }.into()).or_insert(0) += 1;
                    }
                    // legal wrappers around rows: header rows (once, at the top), row groups, rows
                    let mut close = vec![];
                    if ch.row_wrappers && wrap_depth == 0 && rng.chance(1, 4) {
                        let w = if !header_used && rng.bool() {
                            header_used = true;
                            "table:table-header-rows"
                        } else if rng.bool() {
                            "table:table-row-group"
                        } else {
                            "table:table-rows"
                        };
                        x.push_str(&format!("<{}>", w));
                        *counts.entry(format!("wrapper:{}", w)).or_insert(0) += 1;
                        open_wrappers.push(w);
                        wrap_depth = 1 + rng.usize(3);
                        if w == "table:table-row-group" && rng.bool() {
                            x.push_str("<table:table-row-group>");
                            open_wrappers.push("table:table-row-group");
                        }
                    }
                    x.push_str(&format!("<table:table-row table:style-name=\"ro1\"{}>{}</table:table-row>", rep, row_xml(&cells, rng, &mut counts)));
                    if wrap_depth > 0 {
                        wrap_depth -= 1;
                        if wrap_depth == 0 {
                            while let Some(w) = open_wrappers.pop() {
                                close.push(w);
                            }
                        }
                    }
                    for w in close {
                        x.push_str(&format!("</{}>", w));
                    }
                }
                r += n;
            }
            while let Some(w) = open_wrappers.pop() {
                x.push_str(&format!("</{}>", w));
            }
        }
        match ch.trailing {
            Trailing::Absent if max_row.is_some() => {}
            Trailing::Absent | Trailing::Explicit => x.push_str("<table:table-row><table:table-cell/></table:table-row>"),
            Trailing::Huge => x.push_str(&format!("<table:table-row table:number-rows-repeated=\"{}\"><table:table-cell table:number-columns-repeated=\"16384\"/></table:table-row>", 1_048_576 - max_row.map_or(0, |r| r + 1).min(1_000_000))),
        }
        x.push_str("</table:table>");
    }
    if !book.defined_names.is_empty() {
        x.push_str("<table:named-expressions>");
        for (n, v) in &book.defined_names {
            if v.starts_with("of:") {
                x.push_str(&format!("<table:named-expression table:name=\"{}\" table:base-cell-address=\"$Sheet1.$A$1\" table:expression=\"{}\"/>", xml::attr(n), xml::attr(v)));
            } else {
                x.push_str(&format!("<table:named-range table:name=\"{}\" table:base-cell-address=\"$Sheet1.$A$1\" table:cell-range-address=\"{}\"/>", xml::attr(n), xml::attr(v)));
            }
        }
        x.push_str("</table:named-expressions>");
    }
    if ch.dde_links {
        x.push_str("<table:dde-links><table:dde-link><office:dde-source office:dde-application=\"soffice\" office:dde-topic=\"other.ods\" office:dde-item=\"Sheet1.A1\" office:automatic-update=\"true\"/><table:table><table:table-column table:number-columns-repeated=\"2\"/><table:table-row><table:table-cell office:value-type=\"float\" office:value=\"123456\"/><table:table-cell office:value-type=\"string\" office:string-value=\"dde cache\"/></table:table-row></table:table></table:dde-link></table:dde-links>");
    }
    x.push_str("</office:spreadsheet></office:body></office:document-content>");
    // manifest
    let mut m = String::from("<?xml version=\"1.0\" encoding=\"UTF-8\"?>\n<manifest:manifest xmlns:manifest=\"urn:oasis:names:tc:opendocument:xmlns:manifest:1.0\" manifest:version=\"1.2\">");
    m.push_str(&format!("<manifest:file-entry manifest:full-path=\"/\" manifest:version=\"1.2\" manifest:media-type=\"{}\"/>", MIMETYPE));
    let mut content = x.into_bytes();
    let entries = ["content.xml", "styles.xml", "meta.xml", "settings.xml"];
    let mut lines: Vec<(bool, String)> = vec![];
    for (i, e) in entries.iter().enumerate() {
        let enc_here = match ch.encrypt_mode {
            1 => i >= 1 && i <= ch.encrypted_entries.min(3),
            2 => false,
            _ => i < ch.encrypted_entries,
        };
        if ch.encrypt_mode == 2 && ch.encrypted_entries > 0 {
            continue;
        }
        if enc_here {
            lines.push((true, format!("<manifest:file-entry manifest:full-path=\"{}\" manifest:media-type=\"text/xml\" manifest:size=\"{}\"><manifest:encryption-data manifest:checksum-type=\"urn:oasis:names:tc:opendocument:xmlns:manifest:1.0#sha256-1k\" manifest:checksum=\"q1w2e3==\"><manifest:algorithm manifest:algorithm-name=\"http://www.w3.org/2001/04/xmlenc#aes256-cbc\" manifest:initialisation-vector=\"AAAA\"/><manifest:key-derivation manifest:key-derivation-name=\"PBKDF2\" manifest:key-size=\"32\" manifest:iteration-count=\"100000\" manifest:salt=\"BBBB\"/><manifest:start-key-generation manifest:start-key-generation-name=\"http://www.w3.org/2000/09/xmldsig#sha256\" manifest:key-size=\"32\"/></manifest:encryption-data></manifest:file-entry>", e, content.len())));
        } else {
            lines.push((false, format!("<manifest:file-entry manifest:full-path=\"{}\" manifest:media-type=\"text/xml\"/>", e)));
        }
    }
    let enc_data = "<manifest:encryption-data manifest:checksum-type=\"urn:oasis:names:tc:opendocument:xmlns:manifest:1.0#sha256-1k\" manifest:checksum=\"q1w2e3==\"><manifest:algorithm manifest:algorithm-name=\"http://www.w3.org/2001/04/xmlenc#aes256-cbc\" manifest:initialisation-vector=\"AAAA\"/><manifest:key-derivation manifest:key-derivation-name=\"PBKDF2\" manifest:key-size=\"32\" manifest:iteration-count=\"100000\" manifest:salt=\"BBBB\"/></manifest:encryption-data>";
    let wholesale = ch.encrypt_mode == 2 && ch.encrypted_entries > 0;
    if wholesale {
        lines.push((true, format!("<manifest:file-entry manifest:full-path=\"encrypted-package\" manifest:media-type=\"\" manifest:size=\"{}\">{}</manifest:file-entry>", content.len(), enc_data)));
    }
    if ch.plain_entries_first && ch.encrypted_entries > 0 {
        lines.push((false, "<manifest:file-entry manifest:full-path=\"Thumbnails/thumbnail.png\" manifest:media-type=\"image/png\"/>".to_string()));
        lines.sort_by_key(|l| l.0); // stable: plain entries first
    }
    for (_, l) in &lines {
        m.push_str(l);
    }
    m.push_str("</manifest:manifest>");
    if ch.encrypted_entries > 0 && ch.encrypt_mode != 1 {
        // ciphertext instead of XML
        for b in content.iter_mut() {
            *b = rng.next_u32() as u8;
        }
    }
    let mut parts = vec![Part { name: "mimetype".into(), data: MIMETYPE.as_bytes().to_vec(), deflate: false }];
    if wholesale {
        parts.push(Part { name: "encrypted-package".into(), data: content, deflate: false });
        parts.push(Part { name: "META-INF/manifest.xml".into(), data: m.into_bytes(), deflate: ch.deflate });
        return Encoded { bytes: zipw::build(&parts), counts };
    }
    parts.push(Part { name: "content.xml".into(), data: content, deflate: ch.deflate });
    parts.push(Part { name: "styles.xml".into(), data: format!("<?xml version=\"1.0\" encoding=\"UTF-8\"?><office:document-styles {} office:version=\"1.2\"/>", NS).into_bytes(), deflate: ch.deflate });
    parts.push(Part { name: "meta.xml".into(), data: format!("<?xml version=\"1.0\" encoding=\"UTF-8\"?><office:document-meta {} office:version=\"1.2\"/>", NS).into_bytes(), deflate: ch.deflate });
    parts.push(Part { name: "META-INF/manifest.xml".into(), data: m.into_bytes(), deflate: ch.deflate });
    Encoded { bytes: zipw::build(&parts), counts }
}

pub fn expect_values(sh: &MSheet) -> Expect {
    let mut e = Expect::default();
    for (p, c) in &sh.cells {
        let d = match &c.val {
            Val::Num(x) => Data::Float(*x),
            Val::Str(s) => Data::String(s.clone()),
            Val::Bool(b) => Data::Bool(*b),
            Val::IsoDate(s) => Data::DateTimeIso(s.clone()),
            Val::IsoDuration(s) => Data::DurationIso(s.clone()),
            Val::Err(_) | Val::Blank => continue,
        };
        e.cells.insert(*p, d);
    }
    e
}
