//! zip container writer (via the `zip` crate): stored / deflated parts, arbitrary names and order.

use std::io::{Cursor, Write};
use zip::write::SimpleFileOptions;
use zip::CompressionMethod;

pub struct Part {
    pub name: String,
    pub data: Vec<u8>,
    pub deflate: bool,
}

impl Part {
    pub fn new(name: &str, data: Vec<u8>) -> Part {
        Part {
            name: name.to_string(),
            data,
            deflate: true,
        }
    }
}

pub fn build(parts: &[Part]) -> Vec<u8> {
    let mut w = zip::ZipWriter::new(Cursor::new(Vec::new()));
    for p in parts {
        let opt = SimpleFileOptions::default().compression_method(if p.deflate {
            CompressionMethod::Deflated
        } else {
            CompressionMethod::Stored
        });
        w.start_file(p.name.as_str(), opt).expect("zip start_file");
        w.write_all(&p.data).expect("zip write");
    }
    w.finish().expect("zip finish").into_inner()
}

/// read every part of a zip (used to rewrite fixtures for fault injection)
pub fn read_all(bytes: &[u8]) -> Option<Vec<Part>> {
    use std::io::Read;
    let mut z = zip::ZipArchive::new(Cursor::new(bytes)).ok()?;
    let mut out = vec![];
    for i in 0..z.len() {
        let mut f = z.by_index(i).ok()?;
        if f.is_dir() {
            continue;
        }
        let mut d = Vec::new();
        f.read_to_end(&mut d).ok()?;
        out.push(Part {
            name: f.name().to_string(),
            data: d,
            deflate: f.compression() != CompressionMethod::Stored,
        });
    }
    Some(out)
}
