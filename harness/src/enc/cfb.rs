//! Reference compound-file (MS-CFB) writer with an explicit physical-layout choice vector:
//! sector size, chain order and fragmentation, free sectors, FAT / DIFAT / directory / mini-FAT
//! placement, directory entry order and unallocated entries, mini stream.

use crate::prng::Rng;

pub const FREESECT: u32 = 0xFFFF_FFFF;
pub const ENDOFCHAIN: u32 = 0xFFFF_FFFE;
pub const FATSECT: u32 = 0xFFFF_FFFD;
pub const DIFSECT: u32 = 0xFFFF_FFFC;
pub const NOSTREAM: u32 = 0xFFFF_FFFF;

#[derive(Clone, Debug)]
pub struct Entry {
    pub name: String,
    /// None = storage
    pub data: Option<Vec<u8>>,
    /// index of the parent storage in the entry list (None = child of the root)
    pub parent: Option<usize>,
}

impl Entry {
    pub fn stream(name: &str, data: Vec<u8>) -> Entry {
        Entry { name: name.into(), data: Some(data), parent: None }
    }
}

#[derive(Clone, Copy, Debug, PartialEq, Eq)]
pub enum Order {
    Sequential,
    Reversed,
    Random,
}

#[derive(Clone, Copy, Debug, PartialEq, Eq)]
pub enum Place {
    Front,
    Back,
    Scattered,
}

#[derive(Clone, Debug)]
pub struct CfbChoices {
    pub v4: bool,
    pub chain_order: Order,
    pub mini_order: Order,
    pub meta_place: Place,
    /// probability (percent) of a free sector after each used one
    pub free_pct: u32,
    pub shuffle_dir: bool,
    /// unallocated directory entries interspersed between the used ones
    pub dir_holes: bool,
    /// backward links in the DIFAT chain when there are several DIFAT sectors
    pub difat_backwards: bool,
    /// stream chains (regular and mini) own 1-2 sectors more than their length needs
    /// (pre-allocation by the writer; readers must stop at the stream length)
    pub overalloc: bool,
    /// version 3 only: the most significant 32 bits of the stream sizes are not initialised
    /// (older writers; [MS-CFB] 2.6.3 recommends that readers ignore them)
    pub size_high_garbage: bool,
    /// the 64-byte name field of directory entries holds stale characters after the terminating
    /// NUL (recycled entries); the name length field is authoritative
    pub name_tail_garbage: bool,
    /// the end of the DIFAT chain (the header field when there is no DIFAT sector, else the link
    /// of the last DIFAT sector) is written as FREESECT instead of ENDOFCHAIN, as older writers do
    pub difat_end_freesect: bool,
}

impl Default for CfbChoices {
    fn default() -> Self {
        CfbChoices {
            v4: false,
            chain_order: Order::Sequential,
            mini_order: Order::Sequential,
            meta_place: Place::Front,
            free_pct: 0,
            shuffle_dir: false,
            dir_holes: false,
            difat_backwards: false,
            overalloc: false,
            size_high_garbage: false,
            name_tail_garbage: false,
            difat_end_freesect: false,
        }
    }
}

impl CfbChoices {
    pub fn random(rng: &mut Rng) -> CfbChoices {
        CfbChoices {
            v4: rng.chance(1, 3),
            chain_order: *rng.pick(&[Order::Sequential, Order::Reversed, Order::Random, Order::Random]),
            mini_order: *rng.pick(&[Order::Sequential, Order::Reversed, Order::Random]),
            meta_place: *rng.pick(&[Place::Front, Place::Back, Place::Scattered]),
            free_pct: *rng.pick(&[0, 0, 5, 30]),
            shuffle_dir: rng.bool(),
            dir_holes: rng.chance(1, 3),
            difat_backwards: rng.bool(),
            overalloc: rng.chance(1, 4),
            size_high_garbage: rng.chance(1, 4),
            name_tail_garbage: rng.chance(1, 4),
            difat_end_freesect: rng.chance(1, 4),
        }
    }
    pub fn features(&self) -> Vec<String> {
        let mut f = vec![
            if self.v4 { "sector:4096".to_string() } else { "sector:512".to_string() },
            format!("chain:{:?}", self.chain_order),
            format!("mini:{:?}", self.mini_order),
            format!("meta:{:?}", self.meta_place),
        ];
        if self.free_pct > 0 {
            f.push("free_sectors".into());
        }
        if self.shuffle_dir {
            f.push("dir_shuffled".into());
        }
        if self.dir_holes {
            f.push("dir_holes".into());
        }
        if self.overalloc {
            f.push("overallocated_chains".into());
        }
        if self.size_high_garbage && !self.v4 {
            f.push("v3_size_high_dword_garbage".into());
        }
        if self.name_tail_garbage {
            f.push("dir_name_tail_garbage".into());
        }
        if self.difat_end_freesect {
            f.push("difat_end_freesect".into());
        }
        f
    }
}

pub struct Built {
    pub bytes: Vec<u8>,
    pub n_fat_sectors: usize,
    pub n_difat_sectors: usize,
    pub n_mini_sectors: usize,
    pub layout_hash: u64,
}

#[derive(Clone, Copy, PartialEq, Eq, Debug)]
enum Owner {
    Stream(usize),
    MiniContainer,
    MiniFat,
    Dir,
    Fat,
    Difat,
}

fn order_indices(n: usize, o: Order, rng: &mut Rng) -> Vec<usize> {
    let mut v: Vec<usize> = (0..n).collect();
    match o {
        Order::Sequential => {}
        Order::Reversed => v.reverse(),
        Order::Random => rng.shuffle(&mut v),
    }
    v
}

pub fn build(entries: &[Entry], ch: &CfbChoices, rng: &mut Rng) -> Built {
    let ss: usize = if ch.v4 { 4096 } else { 512 };
    let per = ss / 4;
    // ---- mini stream
    let mut mini_chains: Vec<Vec<u32>> = vec![vec![]; entries.len()]; // mini sector ids per stream, in stream order
    let mut n_mini = 0usize;
    for (i, e) in entries.iter().enumerate() {
        if let Some(d) = &e.data {
            if !d.is_empty() && d.len() < 4096 {
                let k = d.len().div_ceil(64) + if ch.overalloc { 1 + rng.usize(2) } else { 0 };
                mini_chains[i] = (n_mini as u32..(n_mini + k) as u32).collect();
                n_mini += k;
            }
        }
    }
    // permute the physical position of mini sectors
    let mini_perm = order_indices(n_mini, ch.mini_order, rng); // logical mini sector j lives at physical mini_perm[j]
    let mut mini_container = vec![0u8; n_mini * 64];
    let mut mini_fat = vec![FREESECT; n_mini];
    for (i, e) in entries.iter().enumerate() {
        let chain = &mini_chains[i];
        if chain.is_empty() {
            continue;
        }
        let d = e.data.as_ref().unwrap();
        for (k, lj) in chain.iter().enumerate() {
            let phys = mini_perm[*lj as usize];
            if k * 64 >= d.len() {
                // pre-allocated mini sector beyond the end of the stream: junk
                mini_container[phys * 64..phys * 64 + 64].fill(0xAB);
            } else {
                let src = &d[k * 64..d.len().min((k + 1) * 64)];
                mini_container[phys * 64..phys * 64 + src.len()].copy_from_slice(src);
            }
            mini_fat[phys] = match chain.get(k + 1) {
                Some(n) => mini_perm[*n as usize] as u32,
                None => ENDOFCHAIN,
            };
        }
    }
    // ---- directory entries (0 = root), optional shuffling and holes
    let mut dir_slots: Vec<Option<usize>> = (0..entries.len()).map(Some).collect(); // entry index per slot (after the root)
    if ch.shuffle_dir {
        rng.shuffle(&mut dir_slots);
    }
    if ch.dir_holes {
        let mut v = vec![];
        for s in dir_slots {
            if rng.chance(1, 3) {
                v.push(None);
            }
            v.push(s);
        }
        dir_slots = v;
    }
    let n_dir_entries = 1 + dir_slots.len();
    let dir_per_sector = ss / 128;
    let n_dir_sectors = n_dir_entries.div_ceil(dir_per_sector);
    // ---- regular sector demand
    let mut demand: Vec<(Owner, usize)> = vec![];
    for (i, e) in entries.iter().enumerate() {
        if let Some(d) = &e.data {
            if d.len() >= 4096 {
                demand.push((Owner::Stream(i), d.len().div_ceil(ss) + if ch.overalloc { 1 + rng.usize(2) } else { 0 }));
            }
        }
    }
    let n_minicont = mini_container.len().div_ceil(ss);
    let n_minifat = (n_mini * 4).div_ceil(ss);
    if n_minicont > 0 {
        demand.push((Owner::MiniContainer, n_minicont));
    }
    if n_minifat > 0 {
        demand.push((Owner::MiniFat, n_minifat));
    }
    demand.push((Owner::Dir, n_dir_sectors));
    let n_payload: usize = demand.iter().map(|d| d.1).sum();
    // free sectors are decided up front so that the FAT size is known
    let n_free_guess = n_payload * ch.free_pct as usize / 100;
    // fix point for FAT / DIFAT sizes
    let (mut n_fat, mut n_difat) = (1usize, 0usize);
    loop {
        let total = n_payload + n_free_guess + n_fat + n_difat;
        let nf = total.div_ceil(per);
        let nd = if nf > 109 { (nf - 109).div_ceil(per - 1) } else { 0 };
        if nf == n_fat && nd == n_difat {
            break;
        }
        n_fat = nf;
        n_difat = nd;
    }
    let total = n_payload + n_free_guess + n_fat + n_difat;
    // ---- physical placement: a list of (owner, logical index) per physical sector, None = free
    let mut data_items: Vec<(Owner, usize)> = vec![];
    for (o, n) in &demand {
        if matches!(o, Owner::Stream(_) | Owner::MiniContainer) {
            for k in 0..*n {
                data_items.push((*o, k));
            }
        }
    }
    let mut meta_items: Vec<(Owner, usize)> = vec![];
    for (o, n) in &demand {
        if matches!(o, Owner::MiniFat | Owner::Dir) {
            for k in 0..*n {
                meta_items.push((*o, k));
            }
        }
    }
    for k in 0..n_fat {
        meta_items.push((Owner::Fat, k));
    }
    for k in 0..n_difat {
        meta_items.push((Owner::Difat, k));
    }
    match ch.chain_order {
        Order::Sequential => {}
        Order::Reversed => data_items.reverse(),
        Order::Random => rng.shuffle(&mut data_items),
    }
    let mut phys: Vec<Option<(Owner, usize)>> = Vec::with_capacity(total);
    match ch.meta_place {
        Place::Front => {
            phys.extend(meta_items.iter().cloned().map(Some));
            phys.extend(data_items.iter().cloned().map(Some));
        }
        Place::Back => {
            phys.extend(data_items.iter().cloned().map(Some));
            if ch.chain_order != Order::Sequential {
                meta_items.reverse();
            }
            phys.extend(meta_items.iter().cloned().map(Some));
        }
        Place::Scattered => {
            let mut all: Vec<(Owner, usize)> = data_items.clone();
            for m in &meta_items {
                let at = rng.usize(all.len() + 1);
                all.insert(at, *m);
            }
            phys.extend(all.into_iter().map(Some));
        }
    }
    // sprinkle the free sectors
    for _ in 0..n_free_guess {
        let at = rng.usize(phys.len() + 1);
        phys.insert(at, None);
    }
    debug_assert_eq!(phys.len(), total);
    // locate
    let find = |o: Owner, k: usize| -> u32 { phys.iter().position(|p| *p == Some((o, k))).expect("sector placed") as u32 };
    let chain_of = |o: Owner, n: usize| -> Vec<u32> { (0..n).map(|k| find(o, k)).collect() };
    // building a position index is O(n^2) with `find`; build a map instead for big files
    let mut index: std::collections::HashMap<(u8, usize, usize), u32> = std::collections::HashMap::new();
    let okey = |o: Owner| -> (u8, usize) {
        match o {
            Owner::Stream(i) => (0, i),
            Owner::MiniContainer => (1, 0),
            Owner::MiniFat => (2, 0),
            Owner::Dir => (3, 0),
            Owner::Fat => (4, 0),
            Owner::Difat => (5, 0),
        }
    };
    for (pos, p) in phys.iter().enumerate() {
        if let Some((o, k)) = p {
            let (a, b) = okey(*o);
            index.insert((a, b, *k), pos as u32);
        }
    }
    let _ = (find, chain_of);
    let chain = |o: Owner, n: usize| -> Vec<u32> {
        let (a, b) = okey(o);
        (0..n).map(|k| index[&(a, b, k)]).collect()
    };
    // ---- FAT
    let mut fat = vec![FREESECT; n_fat * per];
    let mut link = |c: &[u32], fat: &mut Vec<u32>| {
        for (i, s) in c.iter().enumerate() {
            fat[*s as usize] = c.get(i + 1).copied().unwrap_or(ENDOFCHAIN);
        }
    };
    let mut stream_start: Vec<u32> = vec![ENDOFCHAIN; entries.len()];
    for (o, n) in &demand {
        let c = chain(*o, *n);
        link(&c, &mut fat);
        if let Owner::Stream(i) = o {
            stream_start[*i] = c[0];
        }
    }
    let fat_sectors = chain(Owner::Fat, n_fat);
    for s in &fat_sectors {
        fat[*s as usize] = FATSECT;
    }
    let mut difat_sectors = chain(Owner::Difat, n_difat);
    if ch.difat_backwards && difat_sectors.len() > 1 {
        // the chain order of DIFAT sectors is free: walk them in descending physical order
        difat_sectors.sort();
        difat_sectors.reverse();
    }
    for s in &difat_sectors {
        fat[*s as usize] = DIFSECT;
    }
    let minicont_chain = chain(Owner::MiniContainer, n_minicont);
    let minifat_chain = chain(Owner::MiniFat, n_minifat);
    let dir_chain = chain(Owner::Dir, n_dir_sectors);
    for (i, c) in mini_chains.iter().enumerate() {
        if !c.is_empty() {
            stream_start[i] = mini_perm[c[0] as usize] as u32;
        }
    }
    // ---- directory
    let mut dir = vec![0u8; n_dir_sectors * ss];
    let name_tail_garbage = ch.name_tail_garbage;
    let write_entry = |buf: &mut [u8], name: &str, typ: u8, right: u32, child: u32, start: u32, size: u64| {
        let u: Vec<u16> = name.encode_utf16().take(31).collect();
        for (i, c) in u.iter().enumerate() {
            buf[2 * i..2 * i + 2].copy_from_slice(&c.to_le_bytes());
        }
        if name_tail_garbage {
            for (k, c) in "Stale".encode_utf16().enumerate() {
                let at = 2 * (u.len() + 1 + k);
                if at + 2 <= 64 {
                    buf[at..at + 2].copy_from_slice(&c.to_le_bytes());
                }
            }
        }
        buf[64..66].copy_from_slice(&(((u.len() + 1) * 2) as u16).to_le_bytes());
        buf[66] = typ;
        buf[67] = 1; // black
        buf[68..72].copy_from_slice(&NOSTREAM.to_le_bytes());
        buf[72..76].copy_from_slice(&right.to_le_bytes());
        buf[76..80].copy_from_slice(&child.to_le_bytes());
        buf[116..120].copy_from_slice(&start.to_le_bytes());
        buf[120..128].copy_from_slice(&size.to_le_bytes());
    };
    // slot index of every entry
    let mut slot_of = vec![0usize; entries.len()];
    for (s, e) in dir_slots.iter().enumerate() {
        if let Some(i) = e {
            slot_of[*i] = s + 1;
        }
    }
    // children lists: a right-only sibling chain in CFB name order (length, then upper-case)
    let children_of = |parent: Option<usize>| -> Vec<usize> {
        let mut v: Vec<usize> = (0..entries.len()).filter(|i| entries[*i].parent == parent).collect();
        v.sort_by_key(|i| (entries[*i].name.encode_utf16().count(), entries[*i].name.to_uppercase()));
        v
    };
    let first_child = |parent: Option<usize>| -> u32 { children_of(parent).first().map_or(NOSTREAM, |i| slot_of[*i] as u32) };
    let right_sibling = |i: usize| -> u32 {
        let sibs = children_of(entries[i].parent);
        let at = sibs.iter().position(|x| *x == i).unwrap();
        sibs.get(at + 1).map_or(NOSTREAM, |j| slot_of[*j] as u32)
    };
    write_entry(
        &mut dir[0..128],
        "Root Entry",
        5,
        NOSTREAM,
        first_child(None),
        minicont_chain.first().copied().unwrap_or(ENDOFCHAIN),
        mini_container.len() as u64,
    );
    for s in 0..n_dir_sectors * dir_per_sector {
        if s == 0 {
            continue;
        }
        let b = &mut dir[s * 128..(s + 1) * 128];
        match dir_slots.get(s - 1).copied().flatten() {
            Some(i) => {
                let e = &entries[i];
                match &e.data {
                    Some(d) => {
                        write_entry(b, &e.name, 2, right_sibling(i), NOSTREAM, stream_start[i], d.len() as u64);
                        if ch.size_high_garbage && !ch.v4 {
                            b[124..128].copy_from_slice(&[0xCD, 0xCD, 0xCD, 0xCD]);
                        }
                    }
                    None => write_entry(b, &e.name, 1, right_sibling(i), first_child(Some(i)), 0, 0),
                }
            }
            None => {
                // unallocated entry
                b[68..72].copy_from_slice(&NOSTREAM.to_le_bytes());
                b[72..76].copy_from_slice(&NOSTREAM.to_le_bytes());
                b[76..80].copy_from_slice(&NOSTREAM.to_le_bytes());
            }
        }
    }
    // ---- assemble sectors
    let mut file = vec![0u8; (total + 1) * ss];
    // header
    file[0..8].copy_from_slice(&[0xD0, 0xCF, 0x11, 0xE0, 0xA1, 0xB1, 0x1A, 0xE1]);
    file[24..26].copy_from_slice(&0x003Eu16.to_le_bytes());
    file[26..28].copy_from_slice(&(if ch.v4 { 4u16 } else { 3u16 }).to_le_bytes());
    file[28..30].copy_from_slice(&0xFFFEu16.to_le_bytes());
    file[30..32].copy_from_slice(&(if ch.v4 { 0x000Cu16 } else { 0x0009u16 }).to_le_bytes());
    file[32..34].copy_from_slice(&0x0006u16.to_le_bytes());
    file[40..44].copy_from_slice(&(if ch.v4 { n_dir_sectors as u32 } else { 0 }).to_le_bytes());
    file[44..48].copy_from_slice(&(n_fat as u32).to_le_bytes());
    file[48..52].copy_from_slice(&dir_chain[0].to_le_bytes());
    file[56..60].copy_from_slice(&4096u32.to_le_bytes());
    file[60..64].copy_from_slice(&minifat_chain.first().copied().unwrap_or(ENDOFCHAIN).to_le_bytes());
    file[64..68].copy_from_slice(&(n_minifat as u32).to_le_bytes());
    let difat_end = if ch.difat_end_freesect { FREESECT } else { ENDOFCHAIN };
    file[68..72].copy_from_slice(&difat_sectors.first().copied().unwrap_or(difat_end).to_le_bytes());
    file[72..76].copy_from_slice(&(n_difat as u32).to_le_bytes());
    for k in 0..109 {
        let v = fat_sectors.get(k).copied().unwrap_or(FREESECT);
        file[76 + 4 * k..80 + 4 * k].copy_from_slice(&v.to_le_bytes());
    }
    let sector = |file: &mut Vec<u8>, id: u32| -> std::ops::Range<usize> {
        let _ = &file;
        (id as usize + 1) * ss..(id as usize + 2) * ss
    };
    // DIFAT sectors
    let mut rest = fat_sectors.iter().skip(109).copied();
    for (k, s) in difat_sectors.iter().enumerate() {
        let r = sector(&mut file, *s);
        let buf = &mut file[r];
        for j in 0..per - 1 {
            let v = rest.next().unwrap_or(FREESECT);
            buf[4 * j..4 * j + 4].copy_from_slice(&v.to_le_bytes());
        }
        let next = difat_sectors.get(k + 1).copied().unwrap_or(difat_end);
        buf[4 * (per - 1)..4 * per].copy_from_slice(&next.to_le_bytes());
    }
    // FAT sectors
    for (k, s) in fat_sectors.iter().enumerate() {
        let r = sector(&mut file, *s);
        for j in 0..per {
            file[r.start + 4 * j..r.start + 4 * j + 4].copy_from_slice(&fat[k * per + j].to_le_bytes());
        }
    }
    // directory, mini FAT, mini container, streams
    for (k, s) in dir_chain.iter().enumerate() {
        let r = sector(&mut file, *s);
        file[r].copy_from_slice(&dir[k * ss..(k + 1) * ss]);
    }
    let mut mf = vec![0xFFu8; n_minifat * ss];
    for (j, v) in mini_fat.iter().enumerate() {
        mf[4 * j..4 * j + 4].copy_from_slice(&v.to_le_bytes());
    }
    for (k, s) in minifat_chain.iter().enumerate() {
        let r = sector(&mut file, *s);
        file[r].copy_from_slice(&mf[k * ss..(k + 1) * ss]);
    }
    let put = |file: &mut Vec<u8>, c: &[u32], d: &[u8]| {
        for (k, s) in c.iter().enumerate() {
            let at = (*s as usize + 1) * ss;
            if k * ss >= d.len() {
                // pre-allocated sector beyond the end of the stream: junk
                file[at..at + ss].fill(0xAB);
                continue;
            }
            let src = &d[k * ss..d.len().min((k + 1) * ss)];
            file[at..at + src.len()].copy_from_slice(src);
        }
    };
    put(&mut file, &minicont_chain, &mini_container);
    for (o, n) in &demand {
        if let Owner::Stream(i) = o {
            let c = chain(*o, *n);
            put(&mut file, &c, entries[*i].data.as_ref().unwrap());
        }
    }
    // free sectors: junk, to make sure nobody reads them
    for (pos, p) in phys.iter().enumerate() {
        if p.is_none() {
            let at = (pos + 1) * ss;
            for b in file[at..at + ss].iter_mut() {
                *b = 0xEE;
            }
        }
    }
    let mut h = crate::prng::hash_bytes(&file[..ss.min(512)]);
    for s in &fat_sectors {
        let r = sector(&mut file, *s);
        h = crate::prng::mix(h, crate::prng::hash_bytes(&file[r]));
    }
    h = crate::prng::mix(h, crate::prng::hash_bytes(&dir));
    Built {
        bytes: file,
        n_fat_sectors: n_fat,
        n_difat_sectors: n_difat,
        n_mini_sectors: n_mini,
        layout_hash: h,
    }
}
