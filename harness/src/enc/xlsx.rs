//! Reference XLSX (SpreadsheetML) encoder, written from ECMA-376 part 1 (§18) and OPC, with an
//! explicit choice vector for every legal physical variation the properties quantify over.

use super::xml::{self, TextMode};
use super::zipw::{self, Part};
use crate::model::*;
use crate::prng::Rng;
use std::collections::BTreeMap;

#[derive(Clone, Copy, Debug, PartialEq, Eq)]
pub enum RefMode {
    /// every row and cell carries its `r` attribute (what Excel writes)
    Explicit,
    /// rows explicit, cells implicit where the cursor rule allows (filler cells close small gaps)
    ImplicitCells,
    /// rows and cells implicit where possible (filler rows / cells close small gaps)
    ImplicitAll,
    /// per row / per cell random mixture
    Mixed,
    /// rows implicit where the cursor rule allows, every cell explicit
    ImplicitRows,
}

#[derive(Clone, Copy, Debug, PartialEq, Eq)]
pub enum DimMode {
    Absent,
    Exact,
    /// `A1` although the data lies elsewhere
    TooSmall,
    /// larger than the data
    TooLarge,
    /// a stale dimension that covers only the upper-left part of the data
    Understated,
}

#[derive(Clone, Copy, Debug, PartialEq, Eq, Hash, PartialOrd, Ord)]
pub enum StrForm {
    SharedPlain,
    SharedRich,
    SharedPhonetic,
    SharedRichPhonetic,
    InlinePlain,
    InlineRich,
    /// t="str" with the text in <v> (formula string result, or a plain str cell)
    StrV,
}

pub const ALL_FORMS: [StrForm; 7] = [
    StrForm::SharedPlain,
    StrForm::SharedRich,
    StrForm::SharedPhonetic,
    StrForm::SharedRichPhonetic,
    StrForm::InlinePlain,
    StrForm::InlineRich,
    StrForm::StrV,
];

#[derive(Clone, Debug)]
pub struct XlsxChoices {
    pub refs: RefMode,
    pub dim: DimMode,
    /// element prefix for the main namespace ("" = default namespace)
    pub prefix: String,
    /// prefix bound to the officeDocument relationships namespace
    pub rel_prefix: String,
    pub forms: Vec<StrForm>,
    pub text_mode: TextMode,
    /// zip entry names differ in ASCII case from the relationship targets
    pub name_case: bool,
    /// relationship targets written as absolute part names (/xl/worksheets/sheet1.xml)
    pub abs_targets: bool,
    pub whitespace: bool,
    pub extras: bool,
    pub deflate_some: bool,
    pub shuffle_parts: bool,
    pub xml_decl: bool,
    pub bom: bool,
    pub attr_shuffle: bool,
    /// write t="n" on numeric cells (else no t attribute)
    pub explicit_n: bool,
    /// empty / unused items inserted in the shared string table (index alignment)
    pub sst_noise: bool,
    /// number formatting of f64: 0 shortest, 1 exponent form, 2 trailing zeros
    pub num_style: u8,
    pub vba: Option<Vec<u8>>,
    /// <row> elements written in a random order (every row and cell then carries its reference;
    /// sheets with shared formulas keep their order)
    pub rows_shuffled: bool,
}

impl Default for XlsxChoices {
    fn default() -> Self {
        XlsxChoices {
            refs: RefMode::Explicit,
            dim: DimMode::Exact,
            prefix: String::new(),
            rel_prefix: "r".into(),
            forms: vec![StrForm::SharedPlain],
            text_mode: TextMode::Entities,
            name_case: false,
            abs_targets: false,
            whitespace: false,
            extras: false,
            deflate_some: true,
            shuffle_parts: false,
            xml_decl: true,
            bom: false,
            attr_shuffle: false,
            explicit_n: false,
            sst_noise: false,
            num_style: 0,
            vba: None,
            rows_shuffled: false,
        }
    }
}

impl XlsxChoices {
    pub fn random(rng: &mut Rng) -> XlsxChoices {
        let mut forms: Vec<StrForm> = ALL_FORMS.iter().filter(|_| rng.bool()).cloned().collect();
        if forms.is_empty() {
            forms.push(*rng.pick(&ALL_FORMS));
        }
        XlsxChoices {
            refs: *rng.pick(&[RefMode::Explicit, RefMode::ImplicitCells, RefMode::ImplicitAll, RefMode::Mixed, RefMode::ImplicitRows]),
            dim: *rng.pick(&[DimMode::Absent, DimMode::Exact, DimMode::TooSmall, DimMode::TooLarge, DimMode::Understated]),
            prefix: if rng.chance(1, 3) { rng.pick(&["x", "ss", "main"]).to_string() } else { String::new() },
            rel_prefix: rng.pick(&["r", "r", "rel", "d3p1", "relationships"]).to_string(),
            forms,
            text_mode: *rng.pick(&xml::TEXT_MODES),
            name_case: rng.chance(1, 3),
            abs_targets: rng.chance(1, 3),
            whitespace: rng.chance(1, 3),
            extras: rng.bool(),
            deflate_some: rng.bool(),
            shuffle_parts: rng.bool(),
            xml_decl: rng.chance(3, 4),
            bom: rng.chance(1, 5),
            attr_shuffle: rng.chance(1, 3),
            explicit_n: rng.bool(),
            sst_noise: rng.chance(1, 3),
            num_style: rng.below(3) as u8,
            vba: None,
            rows_shuffled: false,
        }
    }
    /// closed-vocabulary feature names of the non-default choices
    pub fn features(&self) -> Vec<String> {
        let d = XlsxChoices::default();
        let mut f = vec![format!("refs:{:?}", self.refs), format!("dim:{:?}", self.dim), format!("text:{:?}", self.text_mode)];
        if !self.prefix.is_empty() {
            f.push("elem_prefix".into());
        }
        if self.rel_prefix != d.rel_prefix {
            f.push("rel_prefix".into());
        }
        for (b, n) in [
            (self.name_case, "part_name_case"),
            (self.abs_targets, "abs_targets"),
            (self.whitespace, "whitespace"),
            (self.extras, "extras"),
            (!self.deflate_some, "all_stored"),
            (self.deflate_some, "deflated"),
            (self.shuffle_parts, "shuffled_parts"),
            (!self.xml_decl, "no_xml_decl"),
            (self.bom, "bom"),
            (self.attr_shuffle, "attr_shuffle"),
            (self.explicit_n, "explicit_t_n"),
            (self.sst_noise, "sst_noise"),
        ] {
            if b {
                f.push(n.into());
            }
        }
        f
    }
}

pub struct Encoded {
    pub bytes: Vec<u8>,
    /// per (sheet index, position): how the cell was physically written
    pub cell_feats: BTreeMap<(usize, Pos), String>,
    /// counted features of the whole file (implicit cells written, filler rows ...)
    pub counts: BTreeMap<String, u64>,
}

const NS_MAIN: &str = "http://schemas.openxmlformats.org/spreadsheetml/2006/main";
const NS_REL: &str = "http://schemas.openxmlformats.org/officeDocument/2006/relationships";
const NS_PKG_REL: &str = "http://schemas.openxmlformats.org/package/2006/relationships";

pub fn fmt_num(v: f64, style: u8) -> String {
    if v.fract() == 0.0 && v.abs() < 1e15 {
        return match style {
            1 if v != 0.0 => format!("{:E}", v),
            2 => format!("{:.1}", v),
            _ => format!("{}", v),
        };
    }
    match style {
        1 => format!("{:E}", v),
        _ => format!("{}", v),
    }
}

struct Sst {
    items: Vec<String>, // already-rendered <si> bodies
}

struct Enc<'a> {
    ch: &'a XlsxChoices,
    rng: &'a mut Rng,
    sst: Sst,
    counts: BTreeMap<String, u64>,
    cell_feats: BTreeMap<(usize, Pos), String>,
}

impl<'a> Enc<'a> {
    fn q(&self, local: &str) -> String {
        if self.ch.prefix.is_empty() {
            local.to_string()
        } else {
            format!("{}:{}", self.ch.prefix, local)
        }
    }
    fn count(&mut self, k: &str) {
        *self.counts.entry(k.to_string()).or_insert(0) += 1;
    }
    fn nl(&self) -> &'static str {
        if self.ch.whitespace {
            "\n  "
        } else {
            ""
        }
    }
    fn root_attrs(&self, with_rel: bool) -> String {
        let mut s = if self.ch.prefix.is_empty() {
            format!(" xmlns=\"{}\"", NS_MAIN)
        } else {
            format!(" xmlns:{}=\"{}\"", self.ch.prefix, NS_MAIN)
        };
        if with_rel {
            s.push_str(&format!(" xmlns:{}=\"{}\"", self.ch.rel_prefix, NS_REL));
        }
        s
    }
    fn head(&self) -> String {
        let mut s = String::new();
        if self.ch.bom {
            s.push('\u{FEFF}');
        }
        if self.ch.xml_decl {
            s.push_str("<?xml version=\"1.0\" encoding=\"UTF-8\" standalone=\"yes\"?>");
            if self.ch.whitespace {
                s.push('\n');
            }
        }
        s
    }

    /// `<t>` element with the text under the chosen escaping layer
    fn t_elem(&mut self, text: &str) -> String {
        let preserve = text.starts_with(char::is_whitespace)
            || text.ends_with(char::is_whitespace)
            || text.contains("  ")
            || self.rng.chance(1, 8);
        let body = xml::text(text, self.ch.text_mode, self.rng);
        format!(
            "<{}{}>{}</{}>",
            self.q("t"),
            if preserve { " xml:space=\"preserve\"" } else { "" },
            body,
            self.q("t")
        )
    }

    /// body of an <si> / <is> element for `text` in the given form
    fn string_body(&mut self, text: &str, rich: bool, phonetic: bool) -> String {
        let mut s = String::new();
        if rich {
            let chars: Vec<char> = text.chars().collect();
            let mut cuts = vec![0, chars.len()];
            for _ in 0..self.rng.usize(4) {
                cuts.push(self.rng.usize(chars.len() + 1));
            }
            cuts.sort();
            for w in cuts.windows(2) {
                if w[0] == w[1] && self.rng.bool() {
                    continue;
                }
                let seg: String = chars[w[0]..w[1]].iter().collect();
                let rpr = if self.rng.bool() {
                    format!("<{0}><{1}/><{2} val=\"11\"/></{0}>", self.q("rPr"), self.q("b"), self.q("sz"))
                } else {
                    String::new()
                };
                let t = self.t_elem(&seg);
                s.push_str(&format!("<{0}>{1}{2}</{0}>", self.q("r"), rpr, t));
            }
            if chars.is_empty() {
                let t = self.t_elem("");
                s.push_str(&format!("<{0}>{1}</{0}>", self.q("r"), t));
            }
        } else {
            s.push_str(&self.t_elem(text));
        }
        if phonetic {
            // phonetic runs contribute nothing to the text
            let t = self.t_elem("フリガナ");
            s.push_str(&format!("<{0} sb=\"0\" eb=\"1\">{1}</{0}>", self.q("rPh"), t));
            if self.rng.bool() {
                let t = self.t_elem("ruby2");
                s.push_str(&format!("<{0} sb=\"1\" eb=\"2\">{1}</{0}>", self.q("rPh"), t));
            }
            s.push_str(&format!("<{} fontId=\"1\" type=\"noConversion\"/>", self.q("phoneticPr")));
        }
        s
    }

    fn sst_index(&mut self, body: String) -> usize {
        if self.ch.sst_noise {
            // empty and unused items before the real one: indices must still line up
            for _ in 0..self.rng.usize(3) {
                let noise = match self.rng.below(4) {
                    0 => String::new(), // <si/>
                    1 => format!("<{}/>", self.q("t")),
                    2 => format!("<{0}></{0}>", self.q("t")),
                    _ => format!("<{0}>unused {1}</{0}>", self.q("t"), self.sst.items.len()),
                };
                if noise.is_empty() {
                    self.count("sst_item:empty_si");
                } else if !noise.contains("unused") {
                    self.count("sst_item:empty_t");
                }
                self.sst.items.push(noise);
            }
        }
        self.sst.items.push(body);
        self.sst.items.len() - 1
    }

    fn attrs(&mut self, mut a: Vec<(String, String)>) -> String {
        if self.ch.attr_shuffle {
            self.rng.shuffle(&mut a);
        }
        a.iter().map(|(k, v)| format!(" {}=\"{}\"", k, xml::attr(v))).collect()
    }

    fn cell_xml(&mut self, si: usize, sheet: &MSheet, pos: Pos, c: &MCell, with_r: bool) -> String {
        let mut a: Vec<(String, String)> = vec![];
        if with_r {
            a.push(("r".into(), a1(pos)));
        } else {
            self.count("implicit_cell_ref");
        }
        if let Some(x) = c.xf {
            a.push(("s".into(), x.to_string()));
        }
        // formula element (plain or shared)
        let mut f = String::new();
        if let Some(g) = sheet.shared.iter().find(|g| pos.0 >= g.rect.0 .0 && pos.0 <= g.rect.1 .0 && pos.1 >= g.rect.0 .1 && pos.1 <= g.rect.1 .1) {
            if g.master == pos {
                let body = xml::text(&g.text, self.ch.text_mode, self.rng);
                let fa = self.attrs(vec![("t".into(), "shared".into()), ("ref".into(), a1_rect(g.rect)), ("si".into(), g.si.to_string())]);
                f = format!("<{0}{1}>{2}</{0}>", self.q("f"), fa, body);
            } else {
                let fa = self.attrs(vec![("t".into(), "shared".into()), ("si".into(), g.si.to_string())]);
                f = format!("<{}{}/>", self.q("f"), fa);
            }
        } else if let Some(txt) = &c.formula {
            let body = xml::text(txt, self.ch.text_mode, self.rng);
            f = format!("<{0}>{1}</{0}>", self.q("f"), body);
        }
        let v = |s: &Self, body: &str| format!("<{0}>{1}</{0}>", s.q("v"), body);
        let mut feat;
        let inner = match &c.val {
            Val::Num(x) => {
                feat = "num".to_string();
                if self.ch.explicit_n {
                    a.push(("t".into(), "n".into()));
                }
                format!("{}{}", f, v(self, &fmt_num(*x, self.ch.num_style)))
            }
            Val::Bool(b) => {
                feat = "bool".into();
                a.push(("t".into(), "b".into()));
                format!("{}{}", f, v(self, if *b { "1" } else { "0" }))
            }
            Val::Err(e) => {
                feat = "error".into();
                a.push(("t".into(), "e".into()));
                format!("{}{}", f, v(self, e.text()))
            }
            Val::IsoDate(s) => {
                feat = "iso_date".into();
                a.push(("t".into(), "d".into()));
                format!("{}{}", f, v(self, s))
            }
            Val::IsoDuration(s) => {
                // not expressible as a typed xlsx cell: written as a str cell
                feat = "str_v".into();
                a.push(("t".into(), "str".into()));
                format!("{}{}", f, v(self, s))
            }
            Val::Blank => {
                feat = "blank".into();
                match self.rng.below(3) {
                    0 => f.clone(),
                    1 => format!("{}<{}/>", f, self.q("v")),
                    _ => {
                        a.push(("t".into(), "n".into()));
                        format!("{}{}", f, v(self, ""))
                    }
                }
            }
            Val::Str(s) => {
                let mut form = *self.rng.pick(&self.ch.forms);
                if !f.is_empty() {
                    form = StrForm::StrV; // a formula's string result is a t="str" cell
                }
                feat = format!("str:{:?}", form);
                match form {
                    StrForm::StrV => {
                        a.push(("t".into(), "str".into()));
                        let body = xml::text(s, self.ch.text_mode, self.rng);
                        format!("{}{}", f, v(self, &body))
                    }
                    StrForm::InlinePlain | StrForm::InlineRich => {
                        a.push(("t".into(), "inlineStr".into()));
                        let b = self.string_body(s, form == StrForm::InlineRich, false);
                        format!("<{0}>{1}</{0}>", self.q("is"), b)
                    }
                    _ => {
                        a.push(("t".into(), "s".into()));
                        let rich = matches!(form, StrForm::SharedRich | StrForm::SharedRichPhonetic);
                        let ph = matches!(form, StrForm::SharedPhonetic | StrForm::SharedRichPhonetic);
                        let b = self.string_body(s, rich, ph);
                        let idx = self.sst_index(b);
                        v(self, &idx.to_string())
                    }
                }
            }
        };
        if !f.is_empty() {
            feat.push_str("+f");
        }
        self.cell_feats.insert((si, pos), feat);
        let at = self.attrs(a);
        if inner.is_empty() {
            format!("<{}{}/>", self.q("c"), at)
        } else {
            format!("<{0}{1}>{2}</{0}>", self.q("c"), at, inner)
        }
    }

    fn sheet_xml(&mut self, si: usize, sh: &MSheet, rels: &mut Vec<(String, String, String)>) -> String {
        let mut s = self.head();
        s.push_str(&format!("<{}{}>", self.q("worksheet"), self.root_attrs(true)));
        if self.ch.extras {
            s.push_str(&format!("{}<{}><{} fitToPage=\"1\"/></{}>", self.nl(), self.q("sheetPr"), self.q("pageSetUpPr"), self.q("sheetPr")));
        }
        // dimension
        let used: Vec<Pos> = sh.cells.keys().cloned().collect();
        let bbox = if used.is_empty() {
            None
        } else {
            Some((
                (used.iter().map(|p| p.0).min().unwrap(), used.iter().map(|p| p.1).min().unwrap()),
                (used.iter().map(|p| p.0).max().unwrap(), used.iter().map(|p| p.1).max().unwrap()),
            ))
        };
        let dim = match (self.ch.dim, bbox) {
            (DimMode::Absent, _) => None,
            (DimMode::Exact, Some(b)) => Some(a1_rect(b)),
            (DimMode::Exact, None) | (DimMode::TooSmall, _) => Some("A1".to_string()),
            (DimMode::TooLarge, Some(b)) => Some(a1_rect(((b.0 .0 / 2, b.0 .1 / 2), ((b.1 .0 + 7).min(1_048_575), (b.1 .1 + 3).min(16_383))))),
            (DimMode::TooLarge, None) => Some("A1:J20".to_string()),
            (DimMode::Understated, Some(b)) => Some(a1_rect((b.0, (b.0 .0 + (b.1 .0 - b.0 .0) / 2, b.0 .1 + (b.1 .1 - b.0 .1) / 2)))),
            (DimMode::Understated, None) => Some("B2".to_string()),
        };
        if let Some(d) = dim {
            s.push_str(&format!("{}<{} ref=\"{}\"/>", self.nl(), self.q("dimension"), d));
        }
        if self.ch.extras {
            s.push_str(&format!(
                "{nl}<{sv}><{v} workbookViewId=\"0\"><{sel} activeCell=\"B2\" sqref=\"B2\"/></{v}></{sv}>{nl}<{fp} defaultRowHeight=\"15\"/>{nl}<{cols}><{col} min=\"1\" max=\"3\" width=\"12.5\" customWidth=\"1\"/></{cols}>",
                nl = self.nl(), sv = self.q("sheetViews"), v = self.q("sheetView"), sel = self.q("selection"),
                fp = self.q("sheetFormatPr"), cols = self.q("cols"), col = self.q("col")
            ));
        }
        s.push_str(&format!("{}<{}>", self.nl(), self.q("sheetData")));
        // rows
        let mut rows: BTreeMap<u32, Vec<(u32, &MCell)>> = BTreeMap::new();
        for (p, c) in &sh.cells {
            rows.entry(p.0).or_default().push((p.1, c));
        }
        let mut row_cursor: u32 = 0; // the row an `r`-less <row> would get
        let shuffle = self.ch.rows_shuffled && sh.shared.is_empty();
        let no_fillers = self.rng.bool();
        let mut row_xml: Vec<String> = vec![];
        let outer = std::mem::take(&mut s);
        for (r, cells) in rows {
            let implicit_row_wanted = !shuffle
                && match self.ch.refs {
                    RefMode::ImplicitAll | RefMode::ImplicitRows => true,
                    RefMode::Mixed => self.rng.bool(),
                    _ => false,
                };
            let mut with_row_r = true;
            if implicit_row_wanted && self.ch.refs == RefMode::ImplicitRows && no_fillers {
                // every cell carries its reference, so the row needs neither `r` nor filler rows
                with_row_r = false;
                self.count("implicit_row_ref_without_fillers");
            } else if implicit_row_wanted && r >= row_cursor && r - row_cursor <= 12 {
                // filler rows bring the cursor to r
                for _ in row_cursor..r {
                    s.push_str(&format!("{}<{}/>", self.nl(), self.q("row")));
                    self.count("filler_row");
                }
                with_row_r = false;
                self.count("implicit_row_ref");
            }
            let mut ra: Vec<(String, String)> = vec![];
            if with_row_r {
                ra.push(("r".into(), (r + 1).to_string()));
            }
            if self.ch.extras && self.rng.bool() {
                ra.push(("spans".into(), "1:16384".into()));
                ra.push(("ht".into(), "15.75".into()));
                ra.push(("customHeight".into(), "1".into()));
            }
            let rat = self.attrs(ra);
            s.push_str(&format!("{}<{}{}>", self.nl(), self.q("row"), rat));
            let mut col_cursor: u32 = 0;
            for (c, cell) in cells {
                let implicit_wanted = !shuffle
                    && match self.ch.refs {
                        RefMode::ImplicitCells | RefMode::ImplicitAll => true,
                        RefMode::Mixed => self.rng.bool(),
                        RefMode::Explicit | RefMode::ImplicitRows => false,
                    };
                // an r-less cell takes (row cursor of the reader, previous column + 1): only legal
                // here when the row itself is positioned by the cursor or its r equals the reader's
                // row cursor, which holds for explicit rows too because the reader sets its row
                // index from the row's r attribute.
                let mut with_r = true;
                if implicit_wanted && c >= col_cursor && c - col_cursor <= 10 {
                    for _ in col_cursor..c {
                        s.push_str(&format!("<{}/>", self.q("c")));
                        self.count("filler_cell");
                    }
                    with_r = false;
                }
                let x = self.cell_xml(si, sh, (r, c), cell, with_r);
                if self.ch.whitespace {
                    s.push_str("\n    ");
                }
                s.push_str(&x);
                col_cursor = c + 1;
            }
            s.push_str(&format!("{}</{}>", self.nl(), self.q("row")));
            row_cursor = r + 1;
            row_xml.push(std::mem::take(&mut s));
        }
        if shuffle && row_xml.len() > 1 {
            self.rng.shuffle(&mut row_xml);
            self.count("rows_out_of_order");
        }
        s = outer;
        for rx in row_xml {
            s.push_str(&rx);
        }
        s.push_str(&format!("{}</{}>", self.nl(), self.q("sheetData")));
        if self.ch.extras {
            s.push_str(&format!("<{} sheet=\"1\" objects=\"1\"/>", self.q("sheetProtection")));
            // a custom view (it precedes mergeCells in the schema) with its own page settings:
            // elements of the same names also exist at the top level, after mergeCells
            s.push_str(&format!(
                "<{0}><{1} guid=\"{{8C8F1A6D-1B2C-4D3E-9F10-112233445566}}\" scale=\"90\"><{2} left=\"0.7\" right=\"0.7\" top=\"0.75\" bottom=\"0.75\" header=\"0.3\" footer=\"0.3\"/><{3} orientation=\"landscape\"/><{4}><{5}>&amp;C custom</{5}></{4}></{1}></{0}>",
                self.q("customSheetViews"), self.q("customSheetView"), self.q("pageMargins"), self.q("pageSetup"), self.q("headerFooter"), self.q("oddHeader")
            ));
        }
        if !sh.merges.is_empty() {
            s.push_str(&format!("{}<{} count=\"{}\">", self.nl(), self.q("mergeCells"), sh.merges.len()));
            for m in &sh.merges {
                s.push_str(&format!("<{} ref=\"{}\"/>", self.q("mergeCell"), a1_rect(*m)));
            }
            s.push_str(&format!("</{}>", self.q("mergeCells")));
        }
        if self.ch.extras {
            s.push_str(&format!("{}<{} left=\"0.7\" right=\"0.7\" top=\"0.75\" bottom=\"0.75\" header=\"0.3\" footer=\"0.3\"/>", self.nl(), self.q("pageMargins")));
        }
        if !sh.tables.is_empty() {
            s.push_str(&format!("<{} count=\"{}\">", self.q("tableParts"), sh.tables.len()));
            for (ti, _) in sh.tables.iter().enumerate() {
                let rid = format!("rId{}", ti + 1);
                s.push_str(&format!("<{} {}:id=\"{}\"/>", self.q("tablePart"), self.ch.rel_prefix, rid));
                rels.push((rid, "table".into(), String::new()));
            }
            s.push_str(&format!("</{}>", self.q("tableParts")));
        }
        if self.ch.extras {
            s.push_str(&format!("<{0}><{1} uri=\"{{78C0D931-6437-407d-A8EE-F0AAD7539E65}}\"><foo:bar xmlns:foo=\"urn:x\"><foo:c r=\"Z99\"/></foo:bar></{1}></{0}>", self.q("extLst"), self.q("ext")));
        }
        s.push_str(&format!("</{}>", self.q("worksheet")));
        s
    }
}

pub fn table_xml(t: &MTable, id: usize) -> String {
    let mut s = String::from("<?xml version=\"1.0\" encoding=\"UTF-8\" standalone=\"yes\"?>");
    s.push_str(&format!(
        "<table xmlns=\"{}\" id=\"{}\" name=\"{}\" displayName=\"{}\" ref=\"{}\"",
        NS_MAIN, id, xml::attr(&t.name), xml::attr(&t.name), a1_rect(t.rect)
    ));
    if let Some(h) = t.header_rows {
        s.push_str(&format!(" headerRowCount=\"{}\"", h));
    }
    if let Some(n) = t.totals_rows {
        s.push_str(&format!(" totalsRowCount=\"{}\"", n));
    }
    if t.totals_rows.is_none() && t.name.len() % 2 == 0 {
        // "a totals row was shown at some time": says nothing about a totals row existing now
        s.push_str(" totalsRowShown=\"1\"");
    }
    if t.name.ends_with("Ins") {
        // a table showing its (empty) insert row
        s.push_str(" insertRow=\"1\"");
    }
    s.push('>');
    if t.header_rows != Some(0) {
        s.push_str(&format!("<autoFilter ref=\"{}\"/>", a1_rect(t.rect)));
    }
    s.push_str(&format!("<tableColumns count=\"{}\">", t.columns.len()));
    for (i, c) in t.columns.iter().enumerate() {
        s.push_str(&format!("<tableColumn id=\"{}\" name=\"{}\"/>", i + 1, xml::attr(c)));
    }
    s.push_str("</tableColumns><tableStyleInfo name=\"TableStyleMedium2\" showRowStripes=\"1\"/></table>");
    s
}

pub fn encode(book: &MBook, ch: &XlsxChoices, rng: &mut Rng) -> Encoded {
    let mut e = Enc {
        ch,
        rng,
        sst: Sst { items: vec![] },
        counts: BTreeMap::new(),
        cell_feats: BTreeMap::new(),
    };
    let mut parts: Vec<Part> = vec![];
    let case = |name: &str, on: bool| -> String {
        if !on {
            return name.to_string();
        }
        // change the ASCII case of the directory and file name, keep "xl/" findable
        let mut it = name.splitn(2, '/');
        let a = it.next().unwrap_or("");
        let b = it.next().unwrap_or("");
        format!("{}/{}", a, b.to_ascii_uppercase())
    };
    // sheets
    let mut wb_rels: Vec<(String, String, String)> = vec![]; // id, type, target
    let mut content_types = String::new();
    let mut sheet_elems = String::new();
    let mut table_no = 0usize;
    for (i, sh) in book.sheets.iter().enumerate() {
        let (dir, typ, ct) = match sh.kind {
            SheetKind::Work => ("worksheets", "worksheet", "worksheet"),
            SheetKind::Chart => ("chartsheets", "chartsheet", "chartsheet"),
            SheetKind::Dialog => ("dialogsheets", "dialogsheet", "dialogsheet"),
            SheetKind::Macro | SheetKind::Vba => ("macrosheets", "xlMacrosheet", "macrosheet"),
        };
        let part = format!("xl/{}/sheet{}.xml", dir, i + 1);
        let rid = format!("rId{}", i + 1);
        let target = if ch.abs_targets { format!("/{}", part) } else { part[3..].to_string() };
        let rtype = if typ == "xlMacrosheet" {
            "http://schemas.microsoft.com/office/2006/relationships/xlMacrosheet".to_string()
        } else {
            format!("{}/{}", NS_REL, typ)
        };
        wb_rels.push((rid.clone(), rtype, target));
        content_types.push_str(&format!("<Override PartName=\"/{}\" ContentType=\"application/vnd.openxmlformats-officedocument.spreadsheetml.{}+xml\"/>", part, ct));
        let mut sa: Vec<(String, String)> = vec![("name".into(), sh.name.clone()), ("sheetId".into(), (i + 1).to_string())];
        match sh.visible {
            Visible::Visible => {
                if e.rng.chance(1, 4) {
                    sa.push(("state".into(), "visible".into()))
                }
            }
            Visible::Hidden => sa.push(("state".into(), "hidden".into())),
            Visible::VeryHidden => sa.push(("state".into(), "veryHidden".into())),
        }
        sa.push((format!("{}:id", ch.rel_prefix), rid));
        let sat = e.attrs(sa);
        sheet_elems.push_str(&format!("{}<{}{}/>", e.nl(), e.q("sheet"), sat));
        let body = match sh.kind {
            SheetKind::Work => {
                let mut rels = vec![];
                let x = e.sheet_xml(i, sh, &mut rels);
                if !rels.is_empty() {
                    let mut rx = format!("<?xml version=\"1.0\" encoding=\"UTF-8\" standalone=\"yes\"?><Relationships xmlns=\"{}\">", NS_PKG_REL);
                    for (ti, (rid, _, _)) in rels.iter().enumerate() {
                        table_no += 1;
                        let tpart = format!("xl/tables/table{}.xml", table_no);
                        rx.push_str(&format!("<Relationship Id=\"{}\" Type=\"{}/table\" Target=\"../tables/table{}.xml\"/>", rid, NS_REL, table_no));
                        // part names are case-insensitive: the table part may differ in case from the rels Target
                        parts.push(Part::new(&case(&tpart, ch.name_case), table_xml(&sh.tables[ti], table_no).into_bytes()));
                        content_types.push_str(&format!("<Override PartName=\"/{}\" ContentType=\"application/vnd.openxmlformats-officedocument.spreadsheetml.table+xml\"/>", tpart));
                    }
                    rx.push_str("</Relationships>");
                    parts.push(Part::new(&case(&format!("xl/worksheets/_rels/sheet{}.xml.rels", i + 1), false), rx.into_bytes()));
                }
                x
            }
            SheetKind::Chart => format!("{}<{1}{2}><{3}><{4} workbookViewId=\"0\"/></{3}><{5} {6}:id=\"rId1\"/></{1}>", e.head(), e.q("chartsheet"), e.root_attrs(true), e.q("sheetViews"), e.q("sheetView"), e.q("drawing"), ch.rel_prefix),
            SheetKind::Dialog => format!("{}<{1}{2}><{3}><{4} workbookViewId=\"0\"/></{3}></{1}>", e.head(), e.q("dialogsheet"), e.root_attrs(true), e.q("sheetViews"), e.q("sheetView")),
            SheetKind::Macro | SheetKind::Vba => format!("{}<xm:macrosheet xmlns:xm=\"http://schemas.microsoft.com/office/excel/2006/main\" xmlns=\"{}\"><sheetData/></xm:macrosheet>", e.head(), NS_MAIN),
        };
        // tables keep their canonical part-name case: the sheet's rels file is looked up from it
        let keep = !sh.tables.is_empty();
        parts.push(Part::new(&case(&part, ch.name_case && !keep), body.into_bytes()));
    }
    // styles
    let mut styles = e.head();
    styles.push_str(&format!("<{}{}>", e.q("styleSheet"), e.root_attrs(false)));
    let customs: Vec<&NumFmt> = {
        let mut seen = std::collections::BTreeSet::new();
        book.xfs.iter().filter(|f| f.code.is_some() && seen.insert(f.id)).collect()
    };
    if !customs.is_empty() {
        styles.push_str(&format!("<{} count=\"{}\">", e.q("numFmts"), customs.len()));
        for f in &customs {
            styles.push_str(&format!("<{} numFmtId=\"{}\" formatCode=\"{}\"/>", e.q("numFmt"), f.id, xml::attr(f.code.as_ref().unwrap())));
        }
        styles.push_str(&format!("</{}>", e.q("numFmts")));
    }
    styles.push_str(&format!(
        "<{fonts} count=\"1\"><{font}><{sz} val=\"11\"/><{name} val=\"Calibri\"/></{font}></{fonts}><{fills} count=\"1\"><{fill}><{pf} patternType=\"none\"/></{fill}></{fills}><{borders} count=\"1\"><{border}/></{borders}>",
        fonts = e.q("fonts"), font = e.q("font"), sz = e.q("sz"), name = e.q("name"), fills = e.q("fills"), fill = e.q("fill"), pf = e.q("patternFill"), borders = e.q("borders"), border = e.q("border")
    ));
    // cellStyleXfs come first and must not be confused with cellXfs: give them a date format
    styles.push_str(&format!("<{0} count=\"2\"><{1} numFmtId=\"14\" fontId=\"0\"/><{1} numFmtId=\"0\"/></{0}>", e.q("cellStyleXfs"), e.q("xf")));
    styles.push_str(&format!("<{} count=\"{}\">", e.q("cellXfs"), book.xfs.len()));
    for f in &book.xfs {
        // numFmtId is optional (default 0 = General): leave it out for General styles now and then
        let mut av = vec![("numFmtId".to_string(), f.id.to_string()), ("fontId".into(), "0".into()), ("xfId".into(), "0".into()), ("applyNumberFormat".into(), "1".into())];
        if f.id == 0 && e.rng.bool() {
            av.remove(0);
            av.pop();
            e.count("xf_without_numFmtId");
        }
        let a = e.attrs(av);
        if e.rng.bool() {
            styles.push_str(&format!("<{}{}/>", e.q("xf"), a));
        } else {
            styles.push_str(&format!("<{0}{1}><{2} horizontal=\"center\"/></{0}>", e.q("xf"), a, e.q("alignment")));
        }
    }
    styles.push_str(&format!("</{}>", e.q("cellXfs")));
    styles.push_str(&format!("<{0} count=\"1\"><{1} name=\"Normal\" xfId=\"0\" builtinId=\"0\"/></{0}><{2} count=\"1\"><{3}><{4} numFmtId=\"15\"/></{3}></{2}></{5}>", e.q("cellStyles"), e.q("cellStyle"), e.q("dxfs"), e.q("dxf"), e.q("numFmt"), e.q("styleSheet")));
    parts.push(Part::new(&case("xl/styles.xml", ch.name_case), styles.into_bytes()));
    wb_rels.push((format!("rId{}", wb_rels.len() + 1), format!("{}/styles", NS_REL), if ch.abs_targets { "/xl/styles.xml".into() } else { "styles.xml".into() }));
    // shared strings
    if !e.sst.items.is_empty() || e.rng.bool() {
        let mut x = e.head();
        x.push_str(&format!("<{}{} count=\"{}\" uniqueCount=\"{}\">", e.q("sst"), e.root_attrs(false), e.sst.items.len(), e.sst.items.len()));
        let items = std::mem::take(&mut e.sst.items);
        for it in &items {
            if it.is_empty() {
                x.push_str(&format!("{}<{}/>", e.nl(), e.q("si")));
            } else {
                x.push_str(&format!("{}<{1}>{2}</{1}>", e.nl(), e.q("si"), it));
            }
        }
        x.push_str(&format!("{}</{}>", e.nl(), e.q("sst")));
        parts.push(Part::new(&case("xl/sharedStrings.xml", ch.name_case), x.into_bytes()));
        wb_rels.push((format!("rId{}", wb_rels.len() + 1), format!("{}/sharedStrings", NS_REL), "sharedStrings.xml".into()));
    }
    if let Some(v) = &ch.vba {
        parts.push(Part::new("xl/vbaProject.bin", v.clone()));
        wb_rels.push((format!("rId{}", wb_rels.len() + 1), "http://schemas.microsoft.com/office/2006/relationships/vbaProject".into(), "vbaProject.bin".into()));
    }
    // workbook
    let mut wb = e.head();
    wb.push_str(&format!("<{}{}>", e.q("workbook"), e.root_attrs(true)));
    if ch.extras {
        wb.push_str(&format!("<{} appName=\"xl\" lastEdited=\"7\" lowestEdited=\"7\" rupBuild=\"22228\"/>", e.q("fileVersion")));
    }
    if book.date1904 {
        wb.push_str(&format!("{}<{} date1904=\"{}\" defaultThemeVersion=\"166925\"/>", e.nl(), e.q("workbookPr"), if e.rng.bool() { "1" } else { "true" }));
    } else if ch.extras {
        wb.push_str(&format!("{}<{} defaultThemeVersion=\"166925\"/>", e.nl(), e.q("workbookPr")));
    }
    if ch.extras {
        wb.push_str(&format!("<{0}><{1} xWindow=\"400\" yWindow=\"156\" windowWidth=\"28800\" windowHeight=\"12000\"/></{0}>", e.q("bookViews"), e.q("workbookView")));
    }
    wb.push_str(&format!("{}<{}>{}{}</{}>", e.nl(), e.q("sheets"), sheet_elems, e.nl(), e.q("sheets")));
    if !book.defined_names.is_empty() {
        wb.push_str(&format!("{}<{}>", e.nl(), e.q("definedNames")));
        // a name may be defined once per scope: repeated names are sheet-scoped (localSheetId)
        let mut seen: BTreeMap<&str, usize> = BTreeMap::new();
        for (n, v) in &book.defined_names {
            let body = xml::text(v, ch.text_mode, e.rng);
            let k = seen.entry(n.as_str()).or_insert(0);
            let dup = book.defined_names.iter().filter(|x| x.0 == *n).count() > 1;
            let scope = if dup { format!(" localSheetId=\"{}\"", (*k).min(book.sheets.len().saturating_sub(1))) } else { String::new() };
            *k += 1;
            wb.push_str(&format!("<{0} name=\"{1}\"{3}>{2}</{0}>", e.q("definedName"), xml::attr(n), body, scope));
        }
        wb.push_str(&format!("</{}>", e.q("definedNames")));
    }
    if ch.extras {
        wb.push_str(&format!("<{} calcId=\"191029\"/>", e.q("calcPr")));
        // what Excel 2013+ writes: another element whose local name is workbookPr
        wb.push_str(&format!("<{0}><{1} uri=\"{{140A7094-0E35-4892-8432-C4D2E57EDEB5}}\" xmlns:x15=\"http://schemas.microsoft.com/office/spreadsheetml/2010/11/main\"><x15:workbookPr chartTrackingRefBase=\"1\"/></{1}></{0}>", e.q("extLst"), e.q("ext")));
    }
    wb.push_str(&format!("{}</{}>", e.nl(), e.q("workbook")));
    parts.push(Part::new(&case("xl/workbook.xml", ch.name_case), wb.into_bytes()));
    // workbook rels
    let mut rx = String::new();
    if ch.xml_decl {
        rx.push_str("<?xml version=\"1.0\" encoding=\"UTF-8\" standalone=\"yes\"?>");
    }
    rx.push_str(&format!("<Relationships xmlns=\"{}\">", NS_PKG_REL));
    if ch.shuffle_parts {
        e.rng.shuffle(&mut wb_rels);
    }
    for (id, t, target) in &wb_rels {
        let a = e.attrs(vec![("Id".into(), id.clone()), ("Type".into(), t.clone()), ("Target".into(), target.clone())]);
        rx.push_str(&format!("{}<Relationship{}/>", e.nl(), a));
    }
    rx.push_str("</Relationships>");
    parts.push(Part::new(&case("xl/_rels/workbook.xml.rels", ch.name_case), rx.into_bytes()));
    parts.push(Part::new(
        "_rels/.rels",
        format!("<?xml version=\"1.0\" encoding=\"UTF-8\" standalone=\"yes\"?><Relationships xmlns=\"{}\"><Relationship Id=\"rId1\" Type=\"{}/officeDocument\" Target=\"xl/workbook.xml\"/></Relationships>", NS_PKG_REL, NS_REL).into_bytes(),
    ));
    parts.push(Part::new(
        "[Content_Types].xml",
        format!("<?xml version=\"1.0\" encoding=\"UTF-8\" standalone=\"yes\"?><Types xmlns=\"http://schemas.openxmlformats.org/package/2006/content-types\"><Default Extension=\"rels\" ContentType=\"application/vnd.openxmlformats-package.relationships+xml\"/><Default Extension=\"xml\" ContentType=\"application/xml\"/><Default Extension=\"bin\" ContentType=\"application/vnd.ms-office.vbaProject\"/><Override PartName=\"/xl/workbook.xml\" ContentType=\"application/vnd.openxmlformats-officedocument.spreadsheetml.sheet.main+xml\"/><Override PartName=\"/xl/styles.xml\" ContentType=\"application/vnd.openxmlformats-officedocument.spreadsheetml.styles+xml\"/><Override PartName=\"/xl/sharedStrings.xml\" ContentType=\"application/vnd.openxmlformats-officedocument.spreadsheetml.sharedStrings+xml\"/>{}</Types>", content_types).into_bytes(),
    ));
    if ch.shuffle_parts {
        e.rng.shuffle(&mut parts);
    } else {
        parts.reverse(); // [Content_Types].xml first, as Excel writes it
    }
    for p in parts.iter_mut() {
        p.deflate = ch.deflate_some && e.rng.chance(3, 4);
    }
    let counts = std::mem::take(&mut e.counts);
    let cell_feats = std::mem::take(&mut e.cell_feats);
    Encoded {
        bytes: zipw::build(&parts),
        cell_feats,
        counts,
    }
}

/// the statement's mapping for xlsx values
pub fn expect_values(book: &MBook, sh: &MSheet) -> Expect {
    let mut e = Expect::default();
    for (p, c) in &sh.cells {
        let d = match &c.val {
            Val::Num(x) => dt(*x, book.fmt_class(c.xf), book.date1904),
            Val::Str(s) => calamine::Data::String(s.clone()),
            Val::Bool(b) => calamine::Data::Bool(*b),
            Val::Err(k) => k.data(),
            Val::IsoDate(s) => calamine::Data::DateTimeIso(s.clone()),
            Val::IsoDuration(s) => calamine::Data::String(s.clone()),
            Val::Blank => continue,
        };
        e.cells.insert(*p, d);
    }
    e
}
