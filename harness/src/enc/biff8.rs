//! Reference BIFF8 workbook-stream encoder, written from [MS-XLS]: globals substream (BOF,
//! CodePage, Date1904, FORMAT, XF, BoundSheet8, SupBook/ExternSheet/Lbl, SST with an explicit
//! CONTINUE split plan, EOF) and worksheet substreams (DIMENSIONS, cell records, MERGECELLS).

use crate::model::*;
use crate::prng::Rng;
use calamine::Data;
use std::collections::{BTreeMap, BTreeSet};

pub const MAX_REC: usize = 8224;

pub fn rec(out: &mut Vec<u8>, typ: u16, data: &[u8]) {
    assert!(data.len() <= MAX_REC, "record too long");
    out.extend_from_slice(&typ.to_le_bytes());
    out.extend_from_slice(&(data.len() as u16).to_le_bytes());
    out.extend_from_slice(data);
}

fn units(s: &str) -> Vec<u16> {
    s.encode_utf16().collect()
}

fn push_chars(out: &mut Vec<u8>, u: &[u16], wide: bool) {
    for c in u {
        if wide {
            out.extend_from_slice(&c.to_le_bytes());
        } else {
            out.push(*c as u8);
        }
    }
}

/// XLUnicodeString: cch u16, flags, characters
pub fn xl_unicode(s: &str, force_wide: bool) -> Vec<u8> {
    let u = units(s);
    let wide = force_wide || u.iter().any(|c| *c > 0xFF);
    let mut o = Vec::new();
    o.extend_from_slice(&(u.len() as u16).to_le_bytes());
    o.push(wide as u8);
    push_chars(&mut o, &u, wide);
    o
}

/// ShortXLUnicodeString: cch u8, flags, characters
pub fn short_xl_unicode(s: &str, force_wide: bool) -> Vec<u8> {
    let u = units(s);
    let wide = force_wide || u.iter().any(|c| *c > 0xFF);
    let mut o = vec![u.len() as u8, wide as u8];
    push_chars(&mut o, &u, wide);
    o
}

// ------------------------------------------------------------------------------------------------
// RK numbers

#[derive(Clone, Copy, Debug, PartialEq, Eq, Hash)]
pub enum NumEnc {
    Number,
    RkInt,
    RkIntDiv100,
    RkFloat,
    RkFloatDiv100,
}

/// every encoding of `v` that decodes to exactly `v`
pub fn applicable_encodings(v: f64) -> Vec<(NumEnc, u32)> {
    let mut r = vec![(NumEnc::Number, 0u32)];
    let in_range = |x: f64| x.fract() == 0.0 && x >= -(1i64 << 29) as f64 && x <= ((1i64 << 29) - 1) as f64;
    if in_range(v) && !(v == 0.0 && v.is_sign_negative()) {
        r.push((NumEnc::RkInt, ((v as i32) << 2) as u32 | 2));
    }
    let v100 = v * 100.0;
    if in_range(v100) && v100 / 100.0 == v && !(v == 0.0 && v.is_sign_negative()) {
        r.push((NumEnc::RkIntDiv100, ((v100 as i32) << 2) as u32 | 3));
    }
    if v.to_bits() & 0x3_FFFF_FFFF == 0 {
        r.push((NumEnc::RkFloat, (v.to_bits() >> 32) as u32 & !3));
    }
    if v100.to_bits() & 0x3_FFFF_FFFF == 0 && v100 / 100.0 == v && v100.is_finite() {
        r.push((NumEnc::RkFloatDiv100, ((v100.to_bits() >> 32) as u32 & !3) | 1));
    }
    r
}

/// reference RK decoder ([MS-XLS] 2.5.217 RkNumber)
pub fn rk_decode(rk: u32) -> f64 {
    let div = rk & 1 != 0;
    let v = if rk & 2 != 0 {
        ((rk as i32) >> 2) as f64
    } else {
        f64::from_bits(((rk & 0xFFFF_FFFC) as u64) << 32)
    };
    if div {
        v / 100.0
    } else {
        v
    }
}

// ------------------------------------------------------------------------------------------------
// SST with CONTINUE split plan

#[derive(Clone, Debug)]
pub struct SstStr {
    pub text: String,
    pub runs: usize,
    pub ext: usize,
    /// store every segment as 16-bit even when 8-bit would do
    pub force_wide: bool,
}

impl SstStr {
    pub fn plain(s: &str) -> SstStr {
        SstStr { text: s.into(), runs: 0, ext: 0, force_wide: false }
    }
}

#[derive(Clone, Debug, PartialEq)]
enum Atom {
    Header(usize),
    Char(u16),
    Run(usize),
    Ext(u8),
}

#[derive(Clone, Debug, Default)]
pub struct SplitPlan {
    /// cut before the atom with this index (indices as produced by `sst_atoms`)
    pub cuts: BTreeSet<usize>,
    /// per cut inside character data: true = continue in 16-bit, false = compress if possible
    pub wide_after_cut: bool,
    /// probability (percent) of an extra random cut before any atom
    pub random_pct: u32,
    /// allow random cuts between the halves of a surrogate pair
    pub allow_surrogate_cuts: bool,
}

pub fn sst_atom_count(strings: &[SstStr]) -> usize {
    strings.iter().map(|s| 1 + units(&s.text).len() + s.runs + s.ext).sum()
}

/// kinds of the legal cut points, by atom index (for enumeration)
pub fn sst_cut_kinds(strings: &[SstStr]) -> Vec<&'static str> {
    let mut v = vec![];
    for s in strings {
        let u = units(&s.text);
        v.push("between_strings");
        for (i, c) in u.iter().enumerate() {
            v.push(if i == 0 {
                "zero_chars_before_cut"
            } else if (0xDC00..0xE000).contains(c) && (0xD800..0xDC00).contains(&u[i - 1]) {
                "surrogate_split"
            } else {
                "in_chars"
            });
        }
        for i in 0..s.runs {
            v.push(if i == 0 { "before_runs" } else { "in_runs" });
        }
        for i in 0..s.ext {
            v.push(if i == 0 && s.runs == 0 { "before_ext" } else { "in_ext" });
        }
    }
    v
}

pub struct SstOut {
    pub records: Vec<(u16, Vec<u8>)>,
    /// cut kinds actually written (planned, random and forced)
    pub cut_feats: Vec<String>,
}

pub fn encode_sst(strings: &[SstStr], plan: &SplitPlan, total_refs: u32, rng: &mut Rng) -> SstOut {
    let mut atoms = vec![];
    for (i, s) in strings.iter().enumerate() {
        atoms.push(Atom::Header(i));
        for c in units(&s.text) {
            atoms.push(Atom::Char(c));
        }
        for k in 0..s.runs {
            atoms.push(Atom::Run(k));
        }
        for k in 0..s.ext {
            atoms.push(Atom::Ext((k * 7 + 3) as u8));
        }
    }
    let kinds = sst_cut_kinds(strings);
    let mut records: Vec<(u16, Vec<u8>)> = vec![];
    let mut cur: Vec<u8> = Vec::new();
    cur.extend_from_slice(&total_refs.to_le_bytes());
    cur.extend_from_slice(&(strings.len() as u32).to_le_bytes());
    let mut cur_typ = 0x00FCu16;
    let mut feats = vec![];
    // state of the character segment being written
    let mut seg_wide = false;
    let mut str_idx = 0usize;
    let wants_cut = |i: usize, rng: &mut Rng| -> bool {
        if i == 0 {
            return false;
        }
        if plan.cuts.contains(&i) {
            return true;
        }
        if plan.random_pct > 0 && rng.below(100) < plan.random_pct as u64 {
            return kinds[i] != "surrogate_split" || plan.allow_surrogate_cuts;
        }
        false
    };
    // compression of a character segment starting at atom i: 8-bit only if every unit up to the
    // end of the string fits (a later cut may still switch)
    let seg_choice = |i: usize, atoms: &[Atom], force_wide: bool, prefer_wide: bool| -> bool {
        if force_wide || prefer_wide {
            return true;
        }
        let mut j = i;
        while j < atoms.len() {
            match &atoms[j] {
                Atom::Char(c) => {
                    if *c > 0xFF {
                        return true;
                    }
                }
                _ => break,
            }
            // only look as far as the next planned cut: after it the flag may change
            if j > i && plan.cuts.contains(&j) {
                break;
            }
            j += 1;
        }
        false
    };
    let mut i = 0;
    while i < atoms.len() {
        let need = match &atoms[i] {
            Atom::Header(s) => 3 + if strings[*s].runs > 0 { 2 } else { 0 } + if strings[*s].ext > 0 { 4 } else { 0 },
            Atom::Char(_) => {
                if seg_wide {
                    2
                } else {
                    1
                }
            }
            Atom::Run(_) => 4,
            Atom::Ext(_) => 1,
        };
        let mut forced = cur.len() + need > MAX_REC;
        // a writer may cut anywhere between code units; unless surrogate cuts are asked for, the
        // forced cut is taken one unit early rather than between the halves of a pair
        if !plan.allow_surrogate_cuts && !forced {
            if let (Atom::Char(c), Some(Atom::Char(_))) = (&atoms[i], atoms.get(i + 1)) {
                if (0xD800..0xDC00).contains(c) && cur.len() + 2 * need > MAX_REC {
                    forced = true;
                }
            }
        }
        let planned = wants_cut(i, rng);
        if forced || planned {
            // a forced cut between surrogate halves cannot be avoided by the plan; skip the cut by
            // moving it one unit earlier is not possible here, so record it as such
            let kind = kinds[i];
            records.push((cur_typ, std::mem::take(&mut cur)));
            cur_typ = 0x003C;
            if let Atom::Char(_) = &atoms[i] {
                // continued character data starts with a fresh flag byte
                let new_wide = seg_choice(i, &atoms, strings[str_idx].force_wide, plan.wide_after_cut && planned);
                feats.push(format!(
                    "cut:{}:{}to{}",
                    if kind == "in_chars" { "in_chars" } else { kind },
                    if seg_wide { 16 } else { 8 },
                    if new_wide { 16 } else { 8 }
                ));
                seg_wide = new_wide;
                cur.push(seg_wide as u8);
            } else {
                feats.push(format!("cut:{}", kind));
            }
            if forced {
                feats.push("cut:forced_at_record_limit".into());
            }
        }
        match &atoms[i] {
            Atom::Header(s) => {
                str_idx = *s;
                let st = &strings[*s];
                let n = units(&st.text).len();
                seg_wide = n > 0 && seg_choice(i + 1, &atoms, st.force_wide, false);
                cur.extend_from_slice(&(n as u16).to_le_bytes());
                let flags = (seg_wide as u8) | if st.ext > 0 { 0x04 } else { 0 } | if st.runs > 0 { 0x08 } else { 0 };
                cur.push(flags);
                if st.runs > 0 {
                    cur.extend_from_slice(&(st.runs as u16).to_le_bytes());
                }
                if st.ext > 0 {
                    cur.extend_from_slice(&(st.ext as u32).to_le_bytes());
                }
            }
            Atom::Char(c) => {
                if seg_wide {
                    cur.extend_from_slice(&c.to_le_bytes());
                } else {
                    debug_assert!(*c <= 0xFF);
                    cur.push(*c as u8);
                }
            }
            Atom::Run(k) => {
                cur.extend_from_slice(&(*k as u16).to_le_bytes());
                cur.extend_from_slice(&((*k % 4) as u16).to_le_bytes());
            }
            Atom::Ext(b) => cur.push(*b),
        }
        i += 1;
    }
    records.push((cur_typ, cur));
    SstOut { records, cut_feats: feats }
}

// ------------------------------------------------------------------------------------------------
// workbook

#[derive(Clone, Copy, Debug, PartialEq, Eq)]
pub enum StrForm {
    LabelSst,
    Label,
}

#[derive(Clone, Debug)]
pub struct FilePass {
    /// 0 = XOR obfuscation, 1 = RC4 (standard header) , 2 = RC4 CryptoAPI
    pub kind: u8,
    /// index among the globals records after BOF where FILEPASS is inserted
    pub position: usize,
}

#[derive(Clone, Debug)]
pub struct BiffChoices {
    /// None = pick a random applicable encoding per number
    pub num_enc: Option<NumEnc>,
    pub mulrk: bool,
    /// 0 exact, 1 absent, 2 wrong
    pub dims: u8,
    pub str_form: StrForm,
    pub force_wide: bool,
    pub extras: bool,
    pub filepass: Option<FilePass>,
    pub sst_plan: SplitPlan,
    /// rich runs / ext data on SST strings
    pub sst_decor: bool,
    /// unreferenced filler strings at the start of the SST (LABELSST indices start there)
    pub sst_pad: usize,
    /// order of the cell records inside a sheet substream
    pub cell_order: CellOrder,
}

#[derive(Clone, Copy, Debug, PartialEq)]
pub enum CellOrder {
    RowMajor,
    ColMajor,
    Reversed,
    Random,
}

impl Default for BiffChoices {
    fn default() -> Self {
        BiffChoices {
            num_enc: None,
            mulrk: true,
            dims: 0,
            str_form: StrForm::LabelSst,
            force_wide: false,
            extras: true,
            filepass: None,
            sst_plan: SplitPlan::default(),
            sst_decor: false,
            sst_pad: 0,
            cell_order: CellOrder::RowMajor,
        }
    }
}

impl BiffChoices {
    pub fn random(rng: &mut Rng) -> BiffChoices {
        BiffChoices {
            num_enc: if rng.chance(1, 3) { Some(NumEnc::Number) } else { None },
            mulrk: rng.bool(),
            dims: rng.below(3) as u8,
            str_form: if rng.chance(1, 4) { StrForm::Label } else { StrForm::LabelSst },
            force_wide: rng.chance(1, 4),
            extras: rng.bool(),
            filepass: None,
            sst_plan: SplitPlan { random_pct: *rng.pick(&[0, 0, 2, 10]), wide_after_cut: rng.bool(), ..Default::default() },
            sst_decor: rng.chance(1, 3),
            sst_pad: 0,
            cell_order: *rng.pick(&[CellOrder::RowMajor, CellOrder::RowMajor, CellOrder::RowMajor, CellOrder::ColMajor, CellOrder::Reversed, CellOrder::Random]),
        }
    }
}

/// tokens of formula cells: (sheet index, position) -> rgce (without the cce prefix)
pub type Rgce = BTreeMap<(usize, Pos), Vec<u8>>;

#[derive(Clone, Debug, Default)]
pub struct BiffExtra {
    pub rgce: Rgce,
    /// defined names as (name, rgce); written as Lbl records after SupBook/ExternSheet
    pub names: Vec<(String, Vec<u8>)>,
    /// XTI table: (supbook index, first sheet, last sheet)
    pub xtis: Vec<(u16, i16, i16)>,
}

pub struct Encoded {
    pub stream: Vec<u8>,
    pub cell_feats: BTreeMap<(usize, Pos), String>,
    pub counts: BTreeMap<String, u64>,
}

fn bof(dt: u16) -> Vec<u8> {
    let mut d = vec![];
    d.extend_from_slice(&0x0600u16.to_le_bytes());
    d.extend_from_slice(&dt.to_le_bytes());
    d.extend_from_slice(&0x0DBBu16.to_le_bytes());
    d.extend_from_slice(&0x07CCu16.to_le_bytes());
    d.extend_from_slice(&0x0000_00C1u32.to_le_bytes());
    d.extend_from_slice(&0x0000_0306u32.to_le_bytes());
    d
}

pub fn encode(book: &MBook, ch: &BiffChoices, extra: &BiffExtra, rng: &mut Rng) -> Encoded {
    let mut counts: BTreeMap<String, u64> = BTreeMap::new();
    let mut cell_feats = BTreeMap::new();
    let mut bump = |k: &str| *counts.entry(k.to_string()).or_insert(0) += 1;
    // ---- shared strings
    let mut sst: Vec<SstStr> = (0..ch.sst_pad).map(|i| SstStr::plain(&format!("pad{}", i))).collect();
    let mut sst_index: BTreeMap<(usize, Pos), u32> = BTreeMap::new();
    let mut total_refs = 0u32;
    for (si, sh) in book.sheets.iter().enumerate() {
        for (p, c) in &sh.cells {
            if let (Val::Str(s), None) = (&c.val, &c.formula) {
                if ch.str_form == StrForm::LabelSst {
                    let decor = ch.sst_decor && rng.chance(1, 3);
                    sst.push(SstStr {
                        text: s.clone(),
                        runs: if decor { 1 + rng.usize(4) } else { 0 },
                        ext: if decor && rng.bool() { 1 + rng.usize(40) } else { 0 },
                        force_wide: ch.force_wide,
                    });
                    sst_index.insert((si, *p), sst.len() as u32 - 1);
                    total_refs += 1;
                }
            }
        }
    }
    let sst_out = encode_sst(&sst, &ch.sst_plan, total_refs, rng);
    for f in &sst_out.cut_feats {
        bump(f);
    }
    // ---- globals (records as (type, data); BoundSheet offsets patched afterwards)
    let mut g: Vec<(u16, Vec<u8>)> = vec![];
    g.push((0x0809, bof(0x0005)));
    if ch.extras {
        g.push((0x00E1, vec![0xB0, 0x04])); // InterfaceHdr
        g.push((0x00C1, vec![0, 0])); // Mms
        g.push((0x00E2, vec![])); // InterfaceEnd
        g.push((0x005C, {
            let mut v = vec![0x20u8; 112];
            v[0] = 1;
            v[1] = 0;
            v[2] = 0;
            v[3] = b'x';
            v
        })); // WriteAccess
    }
    g.push((0x0042, 1200u16.to_le_bytes().to_vec())); // CodePage
    if ch.extras {
        g.push((0x0161, vec![0, 0])); // DSF
        g.push((0x003D, vec![0x68, 0x01, 0x0E, 0x01, 0x5C, 0x3A, 0xBE, 0x23, 0x38, 0, 0, 0, 0, 0, 1, 0, 0x58, 0x02])); // Window1
    }
    g.push((0x0022, (book.date1904 as u16).to_le_bytes().to_vec()));
    if ch.extras {
        let mut f = vec![0xC8, 0, 0, 0, 0xFF, 0x7F, 0x90, 0x01, 0, 0, 0, 0, 0, 0];
        f.extend_from_slice(&short_xl_unicode("Arial", false));
        for _ in 0..4 {
            g.push((0x0031, f.clone()));
        }
    }
    // FORMAT records for the custom formats
    let mut seen = BTreeSet::new();
    for f in &book.xfs {
        if let Some(code) = &f.code {
            if seen.insert(f.id) {
                let mut d = f.id.to_le_bytes().to_vec();
                d.extend_from_slice(&xl_unicode(code, ch.force_wide));
                g.push((0x041E, d));
            }
        }
    }
    // XF records: 16 style/default XFs (ifmt 0) followed by the cell XFs, so that cell ixfe = 16 + i
    let xf = |ifmt: u16, style: bool| -> Vec<u8> {
        let mut d = vec![0u8; 20];
        d[2..4].copy_from_slice(&ifmt.to_le_bytes());
        d[4..6].copy_from_slice(&(if style { 0xFFF5u16 } else { 0x0001 }).to_le_bytes());
        d[6] = 0x20;
        d
    };
    for i in 0..16 {
        g.push((0x00E0, xf(0, i < 15)));
    }
    for f in &book.xfs {
        g.push((0x00E0, xf(f.id, false)));
    }
    if ch.extras {
        g.push((0x0293, vec![0x10, 0x80, 0x00, 0xFF])); // Style
    }
    let first_boundsheet = g.len();
    for sh in &book.sheets {
        let mut d = vec![0u8; 4];
        d.push(match sh.visible {
            Visible::Visible => 0,
            Visible::Hidden => 1,
            Visible::VeryHidden => 2,
        });
        d.push(match sh.kind {
            SheetKind::Work | SheetKind::Dialog => 0,
            SheetKind::Macro => 1,
            SheetKind::Chart => 2,
            SheetKind::Vba => 6,
        });
        d.extend_from_slice(&short_xl_unicode(&sh.name, ch.force_wide));
        g.push((0x0085, d));
    }
    if !extra.xtis.is_empty() || !extra.names.is_empty() {
        let mut sb = (book.sheets.len() as u16).to_le_bytes().to_vec();
        sb.extend_from_slice(&[0x01, 0x04]);
        g.push((0x01AE, sb)); // SupBook (internal references)
        let mut es = (extra.xtis.len() as u16).to_le_bytes().to_vec();
        for x in &extra.xtis {
            es.extend_from_slice(&x.0.to_le_bytes());
            es.extend_from_slice(&x.1.to_le_bytes());
            es.extend_from_slice(&x.2.to_le_bytes());
        }
        g.push((0x0017, es));
        for (name, rgce) in &extra.names {
            let u = units(name);
            let wide = ch.force_wide || u.iter().any(|c| *c > 0xFF);
            // fBuiltin (bit 5 of the option flags) for the one-character built-in names
            let builtin = u.len() == 1 && u[0] < 0x0E;
            let mut d = vec![if builtin { 0x20u8 } else { 0 }, 0, 0, u.len() as u8];
            d.extend_from_slice(&(rgce.len() as u16).to_le_bytes());
            d.extend_from_slice(&[0u8; 8]);
            d.push(wide as u8);
            push_chars(&mut d, &u, wide);
            d.extend_from_slice(rgce);
            g.push((0x0018, d));
        }
    }
    for (t, d) in &sst_out.records {
        g.push((*t, d.clone()));
    }
    if ch.extras && !sst.is_empty() {
        g.push((0x00FF, vec![8, 0])); // ExtSST (contents not interpreted)
    }
    g.push((0x000A, vec![]));
    if let Some(fp) = &ch.filepass {
        let data = match fp.kind {
            0 => vec![0, 0, 0x34, 0x12, 0x78, 0x56],
            1 => {
                let mut v = vec![1, 0, 1, 0, 1, 0];
                v.extend((0..48).map(|_| rng.next_u32() as u8));
                v
            }
            _ => {
                let mut v = vec![1, 0, 2, 0, 2, 0];
                v.extend((0..100).map(|_| rng.next_u32() as u8));
                v
            }
        };
        let at = (1 + fp.position).min(first_boundsheet.min(g.len() - 1));
        g.insert(at, (0x002F, data));
    }
    let globals_len: usize = g.iter().map(|(_, d)| 4 + d.len()).sum();
    // ---- sheets
    let mut sheets_bytes: Vec<Vec<u8>> = vec![];
    for (si, sh) in book.sheets.iter().enumerate() {
        let mut o = Vec::new();
        rec(&mut o, 0x0809, &bof(match sh.kind {
            SheetKind::Chart => 0x0020,
            SheetKind::Macro => 0x0040,
            _ => 0x0010,
        }));
        if ch.extras {
            rec(&mut o, 0x000D, &[1, 0]); // CalcMode
            rec(&mut o, 0x0225, &[0, 0, 0xFF, 0]); // DefaultRowHeight
        }
        let rows: BTreeSet<u32> = sh.cells.keys().map(|p| p.0).collect();
        if ch.dims != 1 {
            let (r0, r1, c0, c1) = if sh.cells.is_empty() {
                (0, 0, 0, 0)
            } else {
                (
                    *rows.iter().next().unwrap(),
                    *rows.iter().last().unwrap() + 1,
                    sh.cells.keys().map(|p| p.1).min().unwrap(),
                    sh.cells.keys().map(|p| p.1).max().unwrap() + 1,
                )
            };
            let (r0, r1, c0, c1) = if ch.dims == 2 { (0, 1, 0, 1) } else { (r0, r1, c0, c1) };
            let mut d = vec![];
            d.extend_from_slice(&r0.to_le_bytes());
            d.extend_from_slice(&r1.to_le_bytes());
            d.extend_from_slice(&(c0 as u16).to_le_bytes());
            d.extend_from_slice(&(c1 as u16).to_le_bytes());
            d.extend_from_slice(&[0, 0]);
            rec(&mut o, 0x0200, &d);
        }
        // (row, first column, byte range in `o`) of every cell record group, for reordering
        let cell_area_start = o.len();
        let mut chunks: Vec<(u32, u32, std::ops::Range<usize>)> = vec![];
        let mut row_recs: Vec<std::ops::Range<usize>> = vec![];
        let mulrk = ch.mulrk && ch.cell_order == CellOrder::RowMajor;
        for r in rows {
            let cells: Vec<(u32, &MCell)> = sh.cells.range((r, 0)..=(r, u32::MAX)).map(|(p, c)| (p.1, c)).collect();
            let row_start = o.len();
            if ch.extras && rng.bool() {
                let mut d = vec![];
                d.extend_from_slice(&(r as u16).to_le_bytes());
                d.extend_from_slice(&(cells[0].0 as u16).to_le_bytes());
                d.extend_from_slice(&((cells[cells.len() - 1].0 + 1) as u16).to_le_bytes());
                d.extend_from_slice(&[0xFF, 0, 0, 0, 0, 0, 0, 1, 0x0F, 0]);
                rec(&mut o, 0x0208, &d); // Row
            }
            row_recs.push(row_start..o.len());
            let mut i = 0;
            while i < cells.len() {
                let chunk_start = o.len();
                let (c, cell) = cells[i];
                let ixfe: u16 = cell.xf.map_or(15, |x| 16 + x as u16);
                let mut head = vec![];
                head.extend_from_slice(&(r as u16).to_le_bytes());
                head.extend_from_slice(&(c as u16).to_le_bytes());
                head.extend_from_slice(&ixfe.to_le_bytes());
                let mut feat = String::new();
                if let Some(ftxt) = &cell.formula {
                    // FORMULA with cached value (+ STRING)
                    let default_rgce = vec![0x1E, 1, 0];
                    let rgce = extra.rgce.get(&(si, (r, c))).unwrap_or(&default_rgce);
                    let _ = ftxt;
                    let mut d = head.clone();
                    let mut string_after: Option<Vec<u8>> = None;
                    match &cell.val {
                        Val::Num(x) => {
                            d.extend_from_slice(&x.to_le_bytes());
                            feat = "formula:num".into();
                        }
                        Val::Str(s) if s.is_empty() => {
                            d.extend_from_slice(&[3, 0, 0, 0, 0, 0, 0xFF, 0xFF]);
                            feat = "formula:blank_string".into();
                        }
                        Val::Str(s) => {
                            d.extend_from_slice(&[0, 0, 0, 0, 0, 0, 0xFF, 0xFF]);
                            string_after = Some(xl_unicode(s, ch.force_wide));
                            feat = "formula:string".into();
                        }
                        Val::Bool(b) => {
                            d.extend_from_slice(&[1, 0, *b as u8, 0, 0, 0, 0xFF, 0xFF]);
                            feat = "formula:bool".into();
                        }
                        Val::Err(e) => {
                            d.extend_from_slice(&[2, 0, e.code(), 0, 0, 0, 0xFF, 0xFF]);
                            feat = "formula:error".into();
                        }
                        _ => {
                            d.extend_from_slice(&0f64.to_le_bytes());
                            feat = "formula:num".into();
                        }
                    }
                    d.extend_from_slice(&[0, 0]); // grbit
                    d.extend_from_slice(&[0, 0, 0, 0]); // chn
                    d.extend_from_slice(&(rgce.len() as u16).to_le_bytes());
                    d.extend_from_slice(rgce);
                    rec(&mut o, 0x0006, &d);
                    if let Some(s) = string_after {
                        if ch.extras && rng.chance(1, 4) {
                            // a shared-formula definition may sit between FORMULA and STRING
                            let mut sf = vec![];
                            sf.extend_from_slice(&(r as u16).to_le_bytes());
                            sf.extend_from_slice(&(r as u16).to_le_bytes());
                            sf.push(c as u8);
                            sf.push(c as u8);
                            sf.extend_from_slice(&[0, 1, 3, 0, 0x1E, 1, 0]);
                            rec(&mut o, 0x04BC, &sf);
                            bump("shrfmla_between_formula_and_string");
                        }
                        rec(&mut o, 0x0207, &s);
                    }
                    bump(&format!("rec:{}", feat));
                    cell_feats.insert((si, (r, c)), feat);
                    chunks.push((r, c, chunk_start..o.len()));
                    i += 1;
                    continue;
                }
                match &cell.val {
                    Val::Num(x) => {
                        let encs = applicable_encodings(*x);
                        let pick = match ch.num_enc {
                            Some(e) => encs.iter().find(|k| k.0 == e).copied().unwrap_or(encs[0]),
                            None => *rng.pick(&encs),
                        };
                        if pick.0 == NumEnc::Number {
                            let mut d = head.clone();
                            d.extend_from_slice(&x.to_le_bytes());
                            rec(&mut o, 0x0203, &d);
                            feat = "num:NUMBER".into();
                        } else {
                            // try to extend into a MULRK run over adjacent columns
                            let mut run = vec![(ixfe, pick.1, c, format!("{:?}", pick.0))];
                            if mulrk {
                                let mut j = i + 1;
                                while j < cells.len() && cells[j].0 == cells[j - 1].0 + 1 && cells[j].1.formula.is_none() {
                                    if let Val::Num(y) = cells[j].1.val {
                                        let e2: Vec<_> = applicable_encodings(y).into_iter().filter(|k| k.0 != NumEnc::Number).collect();
                                        if e2.is_empty() {
                                            break;
                                        }
                                        let p2 = *rng.pick(&e2);
                                        run.push((cells[j].1.xf.map_or(15, |x| 16 + x as u16), p2.1, cells[j].0, format!("{:?}", p2.0)));
                                        j += 1;
                                    } else {
                                        break;
                                    }
                                }
                            }
                            if run.len() >= 2 {
                                let mut d = vec![];
                                d.extend_from_slice(&(r as u16).to_le_bytes());
                                d.extend_from_slice(&(c as u16).to_le_bytes());
                                for (x, rk, _, _) in &run {
                                    d.extend_from_slice(&x.to_le_bytes());
                                    d.extend_from_slice(&rk.to_le_bytes());
                                }
                                d.extend_from_slice(&(run[run.len() - 1].2 as u16).to_le_bytes());
                                rec(&mut o, 0x00BD, &d);
                                for (_, _, col, e) in &run {
                                    cell_feats.insert((si, (r, *col)), format!("num:MULRK:{}", e));
                                    bump(&format!("rec:num:MULRK:{}", e));
                                }
                                bump("rec:MULRK");
                                chunks.push((r, c, chunk_start..o.len()));
                                i += run.len();
                                continue;
                            }
                            let mut d = head.clone();
                            d.extend_from_slice(&pick.1.to_le_bytes());
                            rec(&mut o, 0x027E, &d);
                            feat = format!("num:RK:{:?}", pick.0);
                        }
                    }
                    Val::Str(s) => match sst_index.get(&(si, (r, c))) {
                        Some(ix) => {
                            let mut d = head.clone();
                            d.extend_from_slice(&ix.to_le_bytes());
                            rec(&mut o, 0x00FD, &d);
                            feat = "str:LABELSST".into();
                        }
                        None => {
                            let mut d = head.clone();
                            d.extend_from_slice(&xl_unicode(s, ch.force_wide));
                            rec(&mut o, 0x0204, &d);
                            feat = "str:LABEL".into();
                        }
                    },
                    Val::Bool(b) => {
                        let mut d = head.clone();
                        d.push(*b as u8);
                        d.push(0);
                        rec(&mut o, 0x0205, &d);
                        feat = "bool".into();
                    }
                    Val::Err(e) => {
                        let mut d = head.clone();
                        d.push(e.code());
                        d.push(1);
                        rec(&mut o, 0x0205, &d);
                        feat = "error".into();
                    }
                    Val::Blank | Val::IsoDate(_) | Val::IsoDuration(_) => {
                        rec(&mut o, 0x0201, &head); // Blank
                        feat = "blank".into();
                    }
                }
                bump(&format!("rec:{}", feat));
                cell_feats.insert((si, (r, c)), feat);
                chunks.push((r, c, chunk_start..o.len()));
                i += 1;
            }
        }
        if ch.cell_order != CellOrder::RowMajor && chunks.len() > 1 {
            // ROW records first (in row order), then the cell record groups in the chosen order
            match ch.cell_order {
                CellOrder::ColMajor => chunks.sort_by_key(|c| (c.1, c.0)),
                CellOrder::Reversed => chunks.reverse(),
                _ => rng.shuffle(&mut chunks),
            }
            let mut area = Vec::with_capacity(o.len() - cell_area_start);
            for r in &row_recs {
                area.extend_from_slice(&o[r.clone()]);
            }
            for c in &chunks {
                area.extend_from_slice(&o[c.2.clone()]);
            }
            debug_assert_eq!(area.len(), o.len() - cell_area_start);
            o.truncate(cell_area_start);
            o.extend_from_slice(&area);
            bump(&format!("cell_order:{:?}", ch.cell_order));
        }
        // merged cells, 1026 per record at most
        for chunk in sh.merges.chunks(if ch.extras { 1026 } else { 3 }) {
            let mut d = (chunk.len() as u16).to_le_bytes().to_vec();
            for m in chunk {
                d.extend_from_slice(&(m.0 .0 as u16).to_le_bytes());
                d.extend_from_slice(&(m.1 .0 as u16).to_le_bytes());
                d.extend_from_slice(&(m.0 .1 as u16).to_le_bytes());
                d.extend_from_slice(&(m.1 .1 as u16).to_le_bytes());
            }
            rec(&mut o, 0x00E5, &d);
            bump("rec:MERGECELLS");
        }
        if ch.extras {
            rec(&mut o, 0x023E, &[0xB6, 0x06, 0, 0, 0, 0, 0x40, 0, 0, 0, 0, 0, 0, 0, 0, 0, 0, 0]); // Window2
        }
        rec(&mut o, 0x000A, &[]);
        sheets_bytes.push(o);
    }
    // ---- patch BoundSheet offsets and concatenate
    let mut offset = globals_len;
    let mut bs = 0;
    for (t, d) in g.iter_mut() {
        if *t == 0x0085 {
            d[0..4].copy_from_slice(&(offset as u32).to_le_bytes());
            offset += sheets_bytes[bs].len();
            bs += 1;
        }
    }
    let mut stream = Vec::with_capacity(offset);
    for (t, d) in &g {
        rec(&mut stream, *t, d);
    }
    for s in &sheets_bytes {
        stream.extend_from_slice(s);
    }
    Encoded { stream, cell_feats, counts }
}

/// the statement's mapping for xls values (numbers compared numerically by the oracle)
pub fn expect_values(book: &MBook, sh: &MSheet) -> Expect {
    let mut e = Expect::default();
    for (p, c) in &sh.cells {
        let d = match &c.val {
            Val::Num(x) => dt(*x, book.fmt_class(c.xf), book.date1904),
            Val::Str(s) => Data::String(s.clone()),
            Val::Bool(b) => Data::Bool(*b),
            Val::Err(k) => k.data(),
            Val::IsoDate(_) | Val::IsoDuration(_) | Val::Blank => continue,
        };
        e.cells.insert(*p, d);
    }
    e
}
