//! XML text writing with a choice of escaping layers.

use crate::prng::Rng;

#[derive(Clone, Copy, Debug, PartialEq, Eq)]
pub enum TextMode {
    /// predefined entities for & < > (and quotes in attributes)
    Entities,
    /// numeric character references for specials and all non-ASCII characters
    NumRefs,
    /// CDATA sections (element content only)
    CData,
    /// a random mixture, segment by segment
    Mixed,
}

pub const TEXT_MODES: [TextMode; 4] = [TextMode::Entities, TextMode::NumRefs, TextMode::CData, TextMode::Mixed];

fn esc_char_entities(c: char, attr: bool, out: &mut String) {
    match c {
        '&' => out.push_str("&amp;"),
        '<' => out.push_str("&lt;"),
        '>' => out.push_str("&gt;"),
        '"' if attr => out.push_str("&quot;"),
        '\'' if attr => out.push_str("&apos;"),
        '\r' => out.push_str("&#13;"),
        '\n' | '\t' if attr => out.push_str(&format!("&#{};", c as u32)),
        _ => out.push(c),
    }
}

fn esc_char_numref(c: char, hex: bool, out: &mut String) {
    if c.is_ascii_alphanumeric() || c == ' ' {
        out.push(c)
    } else if hex {
        out.push_str(&format!("&#x{:X};", c as u32))
    } else {
        out.push_str(&format!("&#{};", c as u32))
    }
}

/// element content
pub fn text(s: &str, mode: TextMode, rng: &mut Rng) -> String {
    let mut out = String::with_capacity(s.len() + 16);
    match mode {
        TextMode::Entities => s.chars().for_each(|c| esc_char_entities(c, false, &mut out)),
        TextMode::NumRefs => {
            let hex = rng.bool();
            s.chars().for_each(|c| esc_char_numref(c, hex, &mut out))
        }
        TextMode::CData => cdata(s, &mut out),
        TextMode::Mixed => {
            let chars: Vec<char> = s.chars().collect();
            let mut i = 0;
            while i < chars.len() {
                let n = (1 + rng.usize(6)).min(chars.len() - i);
                let seg: String = chars[i..i + n].iter().collect();
                match rng.below(3) {
                    0 => seg.chars().for_each(|c| esc_char_entities(c, false, &mut out)),
                    1 => seg.chars().for_each(|c| esc_char_numref(c, true, &mut out)),
                    _ => cdata(&seg, &mut out),
                }
                i += n;
            }
        }
    }
    out
}

fn cdata(s: &str, out: &mut String) {
    // CR must not appear literally (it would be normalised); "]]>" must be split
    let mut cur = String::new();
    let flush = |cur: &mut String, out: &mut String| {
        if !cur.is_empty() {
            out.push_str("<![CDATA[");
            out.push_str(&cur.replace("]]>", "]]]]><![CDATA[>"));
            out.push_str("]]>");
            cur.clear();
        }
    };
    for c in s.chars() {
        if c == '\r' {
            flush(&mut cur, out);
            out.push_str("&#13;");
        } else {
            cur.push(c);
        }
    }
    flush(&mut cur, out);
}

/// attribute value (without the surrounding quotes)
pub fn attr(s: &str) -> String {
    let mut out = String::with_capacity(s.len() + 8);
    s.chars().for_each(|c| esc_char_entities(c, true, &mut out));
    out
}

pub fn attr_numref(s: &str) -> String {
    let mut out = String::new();
    s.chars().for_each(|c| esc_char_numref(c, true, &mut out));
    out
}

/// is `c` allowed in XML 1.0 documents
pub fn xml_char_ok(c: char) -> bool {
    matches!(c as u32, 0x9 | 0xA | 0xD | 0x20..=0xD7FF | 0xE000..=0xFFFD | 0x10000..=0x10FFFF)
}
