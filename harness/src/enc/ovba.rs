//! Reference MS-OVBA writer: the compression container (2.4.1) with several tokenisation
//! strategies, the `dir` stream (2.3.4.2) and a complete VBA project as compound-file entries.

use super::cfb::Entry;
use crate::prng::Rng;
use std::collections::BTreeMap;

#[derive(Clone, Copy, Debug, PartialEq, Eq)]
pub enum Strategy {
    /// literal tokens only (falls back to raw for full chunks, which would not fit)
    Literal,
    /// longest match at every position
    Greedy,
    /// random valid (offset, length) matches, incl. overlapping copies and maximal lengths
    Random,
    /// raw chunks for full 4096-byte chunks, greedy for the rest
    Raw,
    /// a different strategy per chunk
    Mixed,
}

pub const STRATEGIES: [Strategy; 5] = [Strategy::Literal, Strategy::Greedy, Strategy::Random, Strategy::Raw, Strategy::Mixed];

#[derive(Default, Clone, Debug)]
pub struct Stats {
    /// copy tokens written per offset bit count (4..=12)
    pub bit_splits: BTreeMap<u32, u64>,
    pub overlapping_copies: u64,
    pub max_len_copies: u64,
    pub raw_chunks: u64,
    pub compressed_chunks: u64,
    /// compressed chunks whose last token is the 8th of its flag byte and that are followed by
    /// another chunk
    pub chunk_end_on_full_flag_group: u64,
    pub literals: u64,
    /// the source has no exact encoding (see `compress`)
    pub unencodable: bool,
}

fn bit_count(pos: usize) -> u32 {
    // smallest b >= 4 with 2^b >= pos
    let mut b = 4;
    while (1usize << b) < pos {
        b += 1;
    }
    b
}

enum Tok {
    Lit(u8),
    Copy { offset: usize, len: usize },
}

fn tokenise(chunk: &[u8], strat: Strategy, rng: &mut Rng, st: &mut Stats) -> Vec<Tok> {
    let mut toks = vec![];
    let mut pos = 0;
    while pos < chunk.len() {
        let bc = bit_count(pos);
        let max_len = ((0xFFFFusize >> bc) + 3).min(chunk.len() - pos);
        let max_off = pos.min(1 << bc);
        let mut best: Option<(usize, usize)> = None;
        if pos > 0 && max_len >= 3 && strat != Strategy::Literal {
            match strat {
                Strategy::Random => {
                    // try a few random offsets; accept any match length >= 3 (cut randomly)
                    for _ in 0..6 {
                        let off = 1 + rng.usize(max_off);
                        let mut l = 0;
                        while l < max_len && chunk[pos + l] == chunk[pos + l - off] {
                            l += 1;
                        }
                        if l >= 3 {
                            let take = if rng.chance(1, 3) { l } else { 3 + rng.usize(l - 2) };
                            best = Some((off, take));
                            if rng.bool() {
                                break;
                            }
                        }
                    }
                    if best.is_some() && rng.chance(1, 10) {
                        best = None; // literal although a match exists
                    }
                }
                _ => {
                    let lo = pos - max_off;
                    for cand in lo..pos {
                        let off = pos - cand;
                        let mut l = 0;
                        while l < max_len && chunk[pos + l] == chunk[pos + l - off] {
                            l += 1;
                        }
                        if l >= 3 && best.map_or(true, |b| l > b.1) {
                            best = Some((off, l));
                        }
                    }
                }
            }
        }
        match best {
            Some((offset, len)) => {
                *st.bit_splits.entry(bc).or_insert(0) += 1;
                if len > offset {
                    st.overlapping_copies += 1;
                }
                if len == (0xFFFFusize >> bc) + 3 {
                    st.max_len_copies += 1;
                }
                toks.push(Tok::Copy { offset, len });
                pos += len;
            }
            None => {
                st.literals += 1;
                toks.push(Tok::Lit(chunk[pos]));
                pos += 1;
            }
        }
    }
    toks
}

fn emit(chunk: &[u8], toks: &[Tok]) -> Vec<u8> {
    let mut out = vec![];
    let mut pos = 0usize;
    for group in toks.chunks(8) {
        let flag_at = out.len();
        out.push(0u8);
        for (i, t) in group.iter().enumerate() {
            match t {
                Tok::Lit(b) => {
                    out.push(*b);
                    pos += 1;
                }
                Tok::Copy { offset, len } => {
                    out[flag_at] |= 1 << i;
                    let bc = bit_count(pos);
                    let tok = (((offset - 1) as u16) << (16 - bc)) | (len - 3) as u16;
                    out.extend_from_slice(&tok.to_le_bytes());
                    pos += len;
                }
            }
        }
    }
    debug_assert_eq!(pos, chunk.len());
    out
}

/// compresses `data` into a container; every 4096-byte chunk gets a strategy
pub fn compress(data: &[u8], strat: Strategy, rng: &mut Rng, st: &mut Stats) -> Vec<u8> {
    let mut out = vec![0x01u8];
    let chunks: Vec<&[u8]> = data.chunks(4096).collect();
    for (ci, chunk) in chunks.iter().enumerate() {
        let s = match strat {
            Strategy::Mixed => *rng.pick(&[Strategy::Literal, Strategy::Greedy, Strategy::Random, Strategy::Raw]),
            s => s,
        };
        let full = chunk.len() == 4096;
        let mut body = None;
        if !(s == Strategy::Raw && full) {
            let toks = tokenise(chunk, if s == Strategy::Raw { Strategy::Greedy } else { s }, rng, st);
            let b = emit(chunk, &toks);
            if b.len() <= 4096 {
                if toks.len() % 8 == 0 && ci + 1 < chunks.len() {
                    st.chunk_end_on_full_flag_group += 1;
                }
                body = Some(b);
            }
        }
        match body {
            Some(b) => {
                st.compressed_chunks += 1;
                let header = ((b.len() + 2 - 3) as u16) | 0x3000 | 0x8000;
                out.extend_from_slice(&header.to_le_bytes());
                out.extend_from_slice(&b);
            }
            None => {
                if full {
                    st.raw_chunks += 1;
                    out.extend_from_slice(&0x3FFFu16.to_le_bytes());
                    out.extend_from_slice(chunk);
                } else {
                    // an incompressible short last chunk (3641..4095 bytes) has no exact
                    // encoding: a raw chunk would be padded to 4096 bytes. The caller skips it.
                    st.unencodable = true;
                }
            }
        }
    }
    out
}

/// reference decompressor (for the encoder's self check)
pub fn decompress(c: &[u8]) -> Option<Vec<u8>> {
    if c.first() != Some(&1) {
        return None;
    }
    let mut out = vec![];
    let mut i = 1;
    while i < c.len() {
        let h = u16::from_le_bytes([*c.get(i)?, *c.get(i + 1)?]);
        i += 2;
        let size = (h & 0x0FFF) as usize + 3;
        let end = i + size - 2;
        let start = out.len();
        if h & 0x8000 == 0 {
            out.extend_from_slice(c.get(i..i + 4096)?);
            i += 4096;
            continue;
        }
        while i < end {
            let flags = *c.get(i)?;
            i += 1;
            for b in 0..8 {
                if i >= end {
                    break;
                }
                if flags & (1 << b) == 0 {
                    out.push(*c.get(i)?);
                    i += 1;
                } else {
                    let t = u16::from_le_bytes([*c.get(i)?, *c.get(i + 1)?]);
                    i += 2;
                    let bc = bit_count(out.len() - start);
                    let len = (t & (0xFFFF >> bc)) as usize + 3;
                    let off = (t >> (16 - bc)) as usize + 1;
                    for _ in 0..len {
                        let b = out[out.len() - off];
                        out.push(b);
                    }
                }
            }
        }
    }
    Some(out)
}

// ------------------------------------------------------------------------------------------------
// project

#[derive(Clone, Debug)]
pub struct Module {
    pub name: String,
    pub source: Vec<u8>,
    pub text_offset: usize,
    pub document: bool,
    pub read_only: bool,
    pub private: bool,
}

#[derive(Clone, Debug)]
pub enum RefKind {
    Registered,
    Project,
    Control,
    OriginalControl,
}

#[derive(Clone, Debug)]
pub struct Reference {
    pub name: String,
    pub kind: RefKind,
}

#[derive(Clone, Debug)]
pub struct Project {
    pub codepage: u16,
    pub modules: Vec<Module>,
    pub references: Vec<Reference>,
    pub compat_version: bool,
}

pub fn encode_mbcs(s: &str, codepage: u16) -> Vec<u8> {
    let enc = match codepage {
        1251 => encoding_rs::WINDOWS_1251,
        932 => encoding_rs::SHIFT_JIS,
        65001 => encoding_rs::UTF_8,
        _ => encoding_rs::WINDOWS_1252,
    };
    enc.encode(s).0.into_owned()
}

fn var(out: &mut Vec<u8>, id: u16, data: &[u8]) {
    out.extend_from_slice(&id.to_le_bytes());
    out.extend_from_slice(&(data.len() as u32).to_le_bytes());
    out.extend_from_slice(data);
}

fn utf16(s: &str) -> Vec<u8> {
    s.encode_utf16().flat_map(|c| c.to_le_bytes()).collect()
}

pub fn dir_stream(p: &Project) -> Vec<u8> {
    let mut o = vec![];
    var(&mut o, 0x0001, &1u32.to_le_bytes()); // PROJECTSYSKIND
    if p.compat_version {
        var(&mut o, 0x004A, &2u32.to_le_bytes());
    }
    var(&mut o, 0x0002, &0x0409u32.to_le_bytes()); // LCID
    var(&mut o, 0x0014, &0x0409u32.to_le_bytes()); // LCIDINVOKE
    var(&mut o, 0x0003, &p.codepage.to_le_bytes()); // CODEPAGE
    var(&mut o, 0x0004, b"VBAProject"); // NAME
    var(&mut o, 0x0005, b"doc"); // DOCSTRING
    var(&mut o, 0x0040, &utf16("doc"));
    var(&mut o, 0x0006, b""); // HELPFILEPATH
    var(&mut o, 0x003D, b"");
    var(&mut o, 0x0007, &0u32.to_le_bytes()); // HELPCONTEXT
    var(&mut o, 0x0008, &0u32.to_le_bytes()); // LIBFLAGS
    o.extend_from_slice(&0x0009u16.to_le_bytes()); // VERSION
    o.extend_from_slice(&4u32.to_le_bytes());
    o.extend_from_slice(&0x5F2A_1C00u32.to_le_bytes());
    o.extend_from_slice(&7u16.to_le_bytes());
    var(&mut o, 0x000C, b""); // CONSTANTS
    var(&mut o, 0x003C, b"");
    for r in &p.references {
        let name = encode_mbcs(&r.name, p.codepage);
        var(&mut o, 0x0016, &name);
        var(&mut o, 0x003E, &utf16(&r.name));
        let libid = |desc: &str| -> Vec<u8> { encode_mbcs(&format!("*\\G{{00020430-0000-0000-C000-000000000046}}#2.0#0#C:\\Windows\\System32\\{}.tlb#{}", desc, desc), p.codepage) };
        match r.kind {
            RefKind::Registered => {
                let l = libid(&r.name);
                o.extend_from_slice(&0x000Du16.to_le_bytes());
                o.extend_from_slice(&((4 + l.len() + 6) as u32).to_le_bytes());
                o.extend_from_slice(&(l.len() as u32).to_le_bytes());
                o.extend_from_slice(&l);
                o.extend_from_slice(&[0; 6]);
            }
            RefKind::Project => {
                let abs = encode_mbcs("*\\CC:\\dir\\other.xlsm", p.codepage);
                let rel = encode_mbcs("*\\Cother.xlsm", p.codepage);
                o.extend_from_slice(&0x000Eu16.to_le_bytes());
                o.extend_from_slice(&((4 + abs.len() + 4 + rel.len() + 6) as u32).to_le_bytes());
                o.extend_from_slice(&(abs.len() as u32).to_le_bytes());
                o.extend_from_slice(&abs);
                o.extend_from_slice(&(rel.len() as u32).to_le_bytes());
                o.extend_from_slice(&rel);
                o.extend_from_slice(&1u32.to_le_bytes());
                o.extend_from_slice(&2u16.to_le_bytes());
            }
            RefKind::Control | RefKind::OriginalControl => {
                if matches!(r.kind, RefKind::OriginalControl) {
                    var(&mut o, 0x0033, &libid("Original"));
                }
                let tw = libid("Twiddled");
                let ext = libid("Extended");
                o.extend_from_slice(&0x002Fu16.to_le_bytes());
                o.extend_from_slice(&((4 + tw.len() + 6) as u32).to_le_bytes());
                o.extend_from_slice(&(tw.len() as u32).to_le_bytes());
                o.extend_from_slice(&tw);
                o.extend_from_slice(&[0; 6]);
                if r.name.len() % 2 == 0 {
                    // optional NameRecordExtended: the name of the extended type library
                    let ext_name = format!("{}_ext", r.name);
                    var(&mut o, 0x0016, &encode_mbcs(&ext_name, p.codepage));
                    var(&mut o, 0x003E, &utf16(&ext_name));
                }
                o.extend_from_slice(&0x0030u16.to_le_bytes());
                o.extend_from_slice(&((4 + ext.len() + 26) as u32).to_le_bytes());
                o.extend_from_slice(&(ext.len() as u32).to_le_bytes());
                o.extend_from_slice(&ext);
                o.extend_from_slice(&[0; 26]);
            }
        }
    }
    // PROJECTMODULES
    o.extend_from_slice(&0x000Fu16.to_le_bytes());
    o.extend_from_slice(&2u32.to_le_bytes());
    o.extend_from_slice(&(p.modules.len() as u16).to_le_bytes());
    o.extend_from_slice(&0x0013u16.to_le_bytes());
    o.extend_from_slice(&2u32.to_le_bytes());
    o.extend_from_slice(&0xFFFFu16.to_le_bytes());
    for (mi, m) in p.modules.iter().enumerate() {
        let n = encode_mbcs(&m.name, p.codepage);
        let sn = stream_name(p, mi);
        var(&mut o, 0x0019, &n);
        var(&mut o, 0x0047, &utf16(&m.name));
        var(&mut o, 0x001A, &encode_mbcs(&sn, p.codepage));
        var(&mut o, 0x0032, &utf16(&sn));
        var(&mut o, 0x001C, b"");
        var(&mut o, 0x0048, b"");
        var(&mut o, 0x0031, &(m.text_offset as u32).to_le_bytes());
        var(&mut o, 0x001E, &0u32.to_le_bytes());
        var(&mut o, 0x002C, &0xFFFFu16.to_le_bytes());
        o.extend_from_slice(&(if m.document { 0x0022u16 } else { 0x0021 }).to_le_bytes());
        o.extend_from_slice(&0u32.to_le_bytes());
        if m.read_only {
            o.extend_from_slice(&0x0025u16.to_le_bytes());
            o.extend_from_slice(&0u32.to_le_bytes());
        }
        if m.private {
            o.extend_from_slice(&0x0028u16.to_le_bytes());
            o.extend_from_slice(&0u32.to_le_bytes());
        }
        o.extend_from_slice(&0x002Bu16.to_le_bytes());
        o.extend_from_slice(&0u32.to_le_bytes());
    }
    o.extend_from_slice(&0x0010u16.to_le_bytes());
    o.extend_from_slice(&0u32.to_le_bytes());
    o
}

thread_local! {
    /// when set, the stream that holds a module is not named after the module: the names are
    /// rotated among the modules (MODULESTREAMNAME != MODULENAME; a single module gets "Strm_<name>")
    pub static STREAM_NAMES_DIFFER: std::cell::Cell<bool> = const { std::cell::Cell::new(false) };
}

/// name of the stream holding module `i`
pub fn stream_name(p: &Project, i: usize) -> String {
    if STREAM_NAMES_DIFFER.with(|c| c.get()) {
        if p.modules.len() == 1 {
            format!("Strm_{}", p.modules[0].name)
        } else {
            p.modules[(i + 1) % p.modules.len()].name.clone()
        }
    } else {
        p.modules[i].name.clone()
    }
}

/// compound-file entries of the project; `root` = name of an enclosing storage (xls) or None
pub fn project_entries(p: &Project, strat: Strategy, root: Option<&str>, rng: &mut Rng, st: &mut Stats) -> Vec<Entry> {
    let mut e: Vec<Entry> = vec![];
    let base = root.map(|r| {
        e.push(Entry { name: r.to_string(), data: None, parent: None });
        0usize
    });
    let vba = e.len();
    e.push(Entry { name: "VBA".into(), data: None, parent: base });
    let dir = compress(&dir_stream(p), if strat == Strategy::Raw { Strategy::Greedy } else { strat }, rng, st);
    e.push(Entry { name: "dir".into(), data: Some(dir), parent: Some(vba) });
    for (mi, m) in p.modules.iter().enumerate() {
        let mut d: Vec<u8> = (0..m.text_offset).map(|i| (i * 31 + 7) as u8).collect();
        d.extend_from_slice(&compress(&m.source, strat, rng, st));
        e.push(Entry { name: stream_name(p, mi), data: Some(d), parent: Some(vba) });
    }
    e.push(Entry { name: "_VBA_PROJECT".into(), data: Some(vec![0xCC, 0x61, 0xFF, 0xFF, 0, 0, 0]), parent: Some(vba) });
    e.push(Entry { name: "PROJECT".into(), data: Some(b"ID=\"{00000000-0000-0000-0000-000000000000}\"\r\n".to_vec()), parent: base });
    e
}
