//! Reference XLSB encoder, written from [MS-XLSB]: varint record framing, workbook.bin,
//! worksheet parts with every cell record kind, sharedStrings.bin, styles.bin, and ignorable
//! records (real and future ids, 1- and 2-byte ids, 1..4-byte lengths) between any two records.

use super::biff8::{applicable_encodings, NumEnc};
use super::zipw::{self, Part};
use crate::model::*;
use crate::prng::Rng;
use calamine::Data;
use std::collections::BTreeMap;

pub fn put_type(out: &mut Vec<u8>, t: u16) {
    if t < 0x80 {
        out.push(t as u8);
    } else {
        out.push((t & 0x7F) as u8 | 0x80);
        out.push((t >> 7) as u8);
    }
}

pub fn put_len(out: &mut Vec<u8>, mut n: usize) {
    loop {
        let b = (n & 0x7F) as u8;
        n >>= 7;
        if n == 0 {
            out.push(b);
            break;
        }
        out.push(b | 0x80);
    }
}

pub fn rec(out: &mut Vec<u8>, t: u16, data: &[u8]) {
    put_type(out, t);
    put_len(out, data.len());
    out.extend_from_slice(data);
}

pub fn wide(s: &str) -> Vec<u8> {
    let u: Vec<u16> = s.encode_utf16().collect();
    let mut o = (u.len() as u32).to_le_bytes().to_vec();
    for c in u {
        o.extend_from_slice(&c.to_le_bytes());
    }
    o
}

#[derive(Clone, Debug)]
pub struct XlsbChoices {
    /// ignorable records between records (0 = none, else percent)
    pub noise_pct: u32,
    /// include one ignorable record with a 4-byte length (>= 2 MiB payload)
    pub big_noise: bool,
    pub dims_wrong: bool,
    /// strings as shared (BrtCellIsst) or inline (BrtCellSt)
    pub shared_strings: bool,
    pub rich_sst: bool,
    pub num_enc: Option<NumEnc>,
    pub deflate: bool,
    /// BrtRowHdr groups written in a random order
    pub rows_shuffled: bool,
    pub vba: Option<Vec<u8>>,
}

impl Default for XlsbChoices {
    fn default() -> Self {
        XlsbChoices { noise_pct: 0, big_noise: false, dims_wrong: false, shared_strings: true, rich_sst: false, num_enc: None, deflate: true, rows_shuffled: false, vba: None }
    }
}

impl XlsbChoices {
    pub fn random(rng: &mut Rng) -> XlsbChoices {
        XlsbChoices {
            noise_pct: *rng.pick(&[0, 10, 40, 80]),
            big_noise: rng.chance(1, 12),
            dims_wrong: rng.chance(1, 3),
            shared_strings: rng.bool(),
            rich_sst: rng.bool(),
            num_enc: if rng.chance(1, 3) { Some(NumEnc::Number) } else { None },
            deflate: rng.bool(),
            rows_shuffled: rng.chance(1, 4),
            vba: None,
        }
    }
}

pub type Rgce = BTreeMap<(usize, Pos), Vec<u8>>;

#[derive(Clone, Debug, Default)]
pub struct XlsbExtra {
    pub rgce: Rgce,
    /// defined names as (name, rgce)
    pub names: Vec<(String, Vec<u8>)>,
    /// XTI table: (first sheet, last sheet) into this workbook
    pub xtis: Vec<(i32, i32)>,
}

pub struct Encoded {
    pub bytes: Vec<u8>,
    pub cell_feats: BTreeMap<(usize, Pos), String>,
    pub counts: BTreeMap<String, u64>,
}

struct Noise<'a> {
    pct: u32,
    rng: &'a mut Rng,
    counts: BTreeMap<String, u64>,
    big_pending: bool,
}

impl<'a> Noise<'a> {
    /// maybe emit ignorable records
    fn maybe(&mut self, out: &mut Vec<u8>, in_sheet_data: bool) {
        while self.pct > 0 && self.rng.below(100) < self.pct as u64 {
            // ids the reader does not interpret at this point: real ones and future ones
            let id: u16 = if in_sheet_data {
                *self.rng.pick(&[0x0025u16, 0x0026, 0x000C, 0x000D, 0x0031, 0x0040, 0x007F, 0x0080, 0x0100, 0x0BFF, 0x1234, 0x3FFF])
            } else {
                *self.rng.pick(&[0x0040u16, 0x007F, 0x0080, 0x0100, 0x0BFF, 0x1234, 0x3FFF, 0x2094])
            };
            let len = match self.rng.below(10) {
                0 => 0,
                1 => 1,
                2 => 127,
                3 => 128,
                4 => 16_383,
                5 => 16_384,
                _ => self.rng.usize(40),
            };
            let mut payload = vec![0u8; len];
            // payload bytes that look like record headers
            for b in payload.iter_mut() {
                *b = *self.rng.pick(&[0x00u8, 0x01, 0x02, 0x05, 0x07, 0x92, 0x01, 0x9C, 0x90, 0x99, 0x84, 0x91, 0xFF]);
            }
            rec(out, id, &payload);
            *self.counts.entry(format!("noise:id{}B:len{}B", if id < 0x80 { 1 } else { 2 }, if len < 0x80 { 1 } else if len < 0x4000 { 2 } else { 3 })).or_insert(0) += 1;
            if self.rng.chance(1, 2) {
                break;
            }
        }
        if self.big_pending && in_sheet_data {
            self.big_pending = false;
            let n = (1 << 21) + self.rng.usize(100);
            let pool = [0x00u8, 0x01, 0x02, 0x05, 0x07, 0x92, 0x08, 0x9C, 0x13, 0xFF, 0x84, 0x91];
            let mut payload = vec![0u8; n];
            let mut x = self.rng.next_u64();
            for b in payload.iter_mut() {
                x = x.wrapping_mul(6364136223846793005).wrapping_add(1442695040888963407);
                *b = pool[(x >> 59) as usize % pool.len()];
            }
            rec(out, 0x0BFF, &payload);
            *self.counts.entry("noise:id2B:len4B".into()).or_insert(0) += 1;
        }
    }
}

fn cell_head(col: u32, xf: Option<usize>) -> Vec<u8> {
    let mut d = col.to_le_bytes().to_vec();
    let s = xf.unwrap_or(0) as u32;
    // byte 7: fPhShow (bit 0, "show phonetic"); set for cells in odd columns of styled cells
    let ph = (xf.is_some() && col % 2 == 1) as u8;
    d.extend_from_slice(&[s as u8, (s >> 8) as u8, (s >> 16) as u8, ph]);
    d
}

fn parsed_formula(rgce: &[u8]) -> Vec<u8> {
    let mut d = (rgce.len() as u32).to_le_bytes().to_vec();
    d.extend_from_slice(rgce);
    d.extend_from_slice(&0u32.to_le_bytes());
    d
}

pub fn encode(book: &MBook, ch: &XlsbChoices, extra: &XlsbExtra, rng: &mut Rng) -> Encoded {
    let mut cell_feats = BTreeMap::new();
    let mut sst: Vec<String> = vec![];
    let mut parts: Vec<Part> = vec![];
    let mut noise = Noise { pct: ch.noise_pct, rng, counts: BTreeMap::new(), big_pending: ch.big_noise };
    let mut rels = String::from("<?xml version=\"1.0\" encoding=\"UTF-8\" standalone=\"yes\"?><Relationships xmlns=\"http://schemas.openxmlformats.org/package/2006/relationships\">");
    // ---- sheets
    for (si, sh) in book.sheets.iter().enumerate() {
        let dir = match sh.kind {
            SheetKind::Work => "worksheets",
            SheetKind::Chart => "chartsheets",
            SheetKind::Dialog => "dialogsheets",
            SheetKind::Macro | SheetKind::Vba => "macrosheets",
        };
        let part = format!("xl/{}/sheet{}.bin", dir, si + 1);
        rels.push_str(&format!("<Relationship Id=\"rId{}\" Type=\"http://schemas.openxmlformats.org/officeDocument/2006/relationships/worksheet\" Target=\"{}/sheet{}.bin\"/>", si + 1, dir, si + 1));
        let mut o = vec![];
        rec(&mut o, 0x0081, &[]); // BrtBeginSheet
        noise.maybe(&mut o, false);
        rec(&mut o, 0x0093, &[0xC9, 0x04, 0x02, 0x00, 0x40, 0, 0, 0, 0, 0, 0, 0, 0, 0, 0, 0, 0, 0, 0, 0, 0, 0, 0]); // BrtWsProp
        let (r0, r1, c0, c1) = if sh.cells.is_empty() || ch.dims_wrong {
            (0u32, 0u32, 0u32, 0u32)
        } else {
            (
                sh.cells.keys().map(|p| p.0).min().unwrap(),
                sh.cells.keys().map(|p| p.0).max().unwrap(),
                sh.cells.keys().map(|p| p.1).min().unwrap(),
                sh.cells.keys().map(|p| p.1).max().unwrap(),
            )
        };
        let mut d = vec![];
        for v in [r0, r1, c0, c1] {
            d.extend_from_slice(&v.to_le_bytes());
        }
        rec(&mut o, 0x0094, &d); // BrtWsDim
        // views, format info, column infos (blocks the reader skips)
        rec(&mut o, 0x0085, &[]);
        rec(&mut o, 0x0089, &[0xDC, 0x03, 0, 0, 0, 0, 0, 0, 0, 0, 0, 0, 0, 0, 0, 0, 0x40, 0, 0, 0, 0x64, 0, 0, 0, 0, 0, 0, 0, 0, 0]);
        rec(&mut o, 0x008A, &[]);
        rec(&mut o, 0x0086, &[]);
        noise.maybe(&mut o, false);
        rec(&mut o, 0x01E5, &[0xFF, 0xFF, 0xFF, 0xFF, 0x08, 0, 0x2C, 0x01, 0, 0, 0, 0]);
        if noise.rng.bool() {
            rec(&mut o, 0x0186, &[]);
            rec(&mut o, 0x003C, &[0, 0, 0, 0, 2, 0, 0, 0, 0, 0x0B, 0, 0, 0, 0, 0, 0, 2, 0]);
            rec(&mut o, 0x0187, &[]);
        }
        rec(&mut o, 0x0091, &[]); // BrtBeginSheetData
        let rows: std::collections::BTreeSet<u32> = sh.cells.keys().map(|p| p.0).collect();
        let row_area_start = o.len();
        let mut row_groups: Vec<std::ops::Range<usize>> = vec![];
        for r in rows {
            if let Some(last) = row_groups.last_mut() {
                last.end = o.len();
            }
            row_groups.push(o.len()..o.len());
            noise.maybe(&mut o, true);
            let mut rh = r.to_le_bytes().to_vec();
            rh.extend_from_slice(&[0, 0, 0, 0, 0x2C, 0x01, 0, 0, 0]);
            rh.extend_from_slice(&0u32.to_le_bytes());
            rec(&mut o, 0x0000, &rh); // BrtRowHdr
            for (p, cell) in sh.cells.range((r, 0)..=(r, u32::MAX)) {
                noise.maybe(&mut o, true);
                let c = p.1;
                let head = cell_head(c, cell.xf);
                let default_rgce = vec![0x1E, 1, 0];
                let rgce = extra.rgce.get(&(si, *p)).unwrap_or(&default_rgce);
                let feat;
                if cell.formula.is_some() {
                    let mut d = head.clone();
                    match &cell.val {
                        Val::Str(s) => {
                            d.extend_from_slice(&wide(s));
                            d.extend_from_slice(&[0, 0]);
                            d.extend_from_slice(&parsed_formula(rgce));
                            rec(&mut o, 0x0008, &d);
                            feat = "BrtFmlaString";
                        }
                        Val::Bool(b) => {
                            d.push(*b as u8);
                            d.extend_from_slice(&[0, 0]);
                            d.extend_from_slice(&parsed_formula(rgce));
                            rec(&mut o, 0x000A, &d);
                            feat = "BrtFmlaBool";
                        }
                        Val::Err(e) => {
                            d.push(e.code());
                            d.extend_from_slice(&[0, 0]);
                            d.extend_from_slice(&parsed_formula(rgce));
                            rec(&mut o, 0x000B, &d);
                            feat = "BrtFmlaError";
                        }
                        Val::Num(x) => {
                            d.extend_from_slice(&x.to_le_bytes());
                            d.extend_from_slice(&[0, 0]);
                            d.extend_from_slice(&parsed_formula(rgce));
                            rec(&mut o, 0x0009, &d);
                            feat = "BrtFmlaNum";
                        }
                        _ => {
                            d.extend_from_slice(&0f64.to_le_bytes());
                            d.extend_from_slice(&[0, 0]);
                            d.extend_from_slice(&parsed_formula(rgce));
                            rec(&mut o, 0x0009, &d);
                            feat = "BrtFmlaNum";
                        }
                    }
                    cell_feats.insert((si, *p), feat.to_string());
                    continue;
                }
                let mut d = head.clone();
                let feat: String = match &cell.val {
                    Val::Num(x) => {
                        let encs = applicable_encodings(*x);
                        let pick = match ch.num_enc {
                            Some(e) => encs.iter().find(|k| k.0 == e).copied().unwrap_or(encs[0]),
                            None => *noise.rng.pick(&encs),
                        };
                        if pick.0 == NumEnc::Number {
                            d.extend_from_slice(&x.to_le_bytes());
                            rec(&mut o, 0x0005, &d);
                            "BrtCellReal".into()
                        } else {
                            d.extend_from_slice(&pick.1.to_le_bytes());
                            rec(&mut o, 0x0002, &d);
                            format!("BrtCellRk:{:?}", pick.0)
                        }
                    }
                    Val::Str(s) => {
                        if ch.shared_strings {
                            sst.push(s.clone());
                            d.extend_from_slice(&(sst.len() as u32 - 1).to_le_bytes());
                            rec(&mut o, 0x0007, &d);
                            "BrtCellIsst".into()
                        } else {
                            d.extend_from_slice(&wide(s));
                            rec(&mut o, 0x0006, &d);
                            "BrtCellSt".into()
                        }
                    }
                    Val::Bool(b) => {
                        d.push(*b as u8);
                        rec(&mut o, 0x0004, &d);
                        "BrtCellBool".into()
                    }
                    Val::Err(e) => {
                        d.push(e.code());
                        rec(&mut o, 0x0003, &d);
                        "BrtCellError".into()
                    }
                    Val::Blank | Val::IsoDate(_) | Val::IsoDuration(_) => {
                        rec(&mut o, 0x0001, &d);
                        "BrtCellBlank".into()
                    }
                };
                cell_feats.insert((si, *p), feat);
            }
        }
        if let Some(last) = row_groups.last_mut() {
            last.end = o.len();
        }
        if ch.rows_shuffled && row_groups.len() > 1 {
            noise.rng.shuffle(&mut row_groups);
            let mut area = Vec::with_capacity(o.len() - row_area_start);
            for g in &row_groups {
                area.extend_from_slice(&o[g.clone()]);
            }
            o.truncate(row_area_start);
            o.extend_from_slice(&area);
            *noise.counts.entry("rows_out_of_order".to_string()).or_insert(0) += 1;
        }
        noise.maybe(&mut o, true);
        rec(&mut o, 0x0092, &[]); // BrtEndSheetData
        if !sh.merges.is_empty() {
            rec(&mut o, 0x00B1, &(sh.merges.len() as u32).to_le_bytes());
            for m in &sh.merges {
                let mut d = vec![];
                for v in [m.0 .0, m.1 .0, m.0 .1, m.1 .1] {
                    d.extend_from_slice(&v.to_le_bytes());
                }
                rec(&mut o, 0x00B0, &d);
            }
            rec(&mut o, 0x00B2, &[]);
        }
        rec(&mut o, 0x0082, &[]); // BrtEndSheet
        parts.push(Part { name: part, data: o, deflate: ch.deflate });
    }
    // ---- shared strings
    if !sst.is_empty() || noise.rng.bool() {
        let mut o = vec![];
        let mut d = (sst.len() as u32).to_le_bytes().to_vec();
        d.extend_from_slice(&(sst.len() as u32).to_le_bytes());
        rec(&mut o, 0x009F, &d);
        for s in &sst {
            let mut d = vec![];
            if ch.rich_sst && noise.rng.bool() {
                let ph = noise.rng.bool();
                d.push(1 | if ph { 2 } else { 0 });
                d.extend_from_slice(&wide(s));
                let n = 1 + noise.rng.usize(3);
                d.extend_from_slice(&(n as u32).to_le_bytes());
                for k in 0..n {
                    d.extend_from_slice(&(k as u16).to_le_bytes());
                    d.extend_from_slice(&1u16.to_le_bytes());
                }
                if ph {
                    d.extend_from_slice(&wide("フリガナ"));
                    d.extend_from_slice(&1u32.to_le_bytes());
                    d.extend_from_slice(&[0, 0, 0, 0, 1, 0]);
                }
                *noise.counts.entry("sst:rich".into()).or_insert(0) += 1;
            } else {
                d.push(0);
                d.extend_from_slice(&wide(s));
            }
            if noise.rng.chance(1, 6) {
                // a "future" block between items
                rec(&mut o, 0x0023, &[1, 2, 3, 4]);
                rec(&mut o, 0x0BFF, &[9, 9]);
                rec(&mut o, 0x0024, &[]);
            }
            rec(&mut o, 0x0013, &d);
        }
        rec(&mut o, 0x00A0, &[]);
        parts.push(Part { name: "xl/sharedStrings.bin".into(), data: o, deflate: ch.deflate });
    }
    // ---- styles
    {
        let mut o = vec![];
        rec(&mut o, 0x0116, &[]);
        let mut seen = std::collections::BTreeSet::new();
        let customs: Vec<&NumFmt> = book.xfs.iter().filter(|f| f.code.is_some() && seen.insert(f.id)).collect();
        if !customs.is_empty() {
            rec(&mut o, 0x0267, &(customs.len() as u32).to_le_bytes());
            for f in customs {
                let mut d = f.id.to_le_bytes().to_vec();
                d.extend_from_slice(&wide(f.code.as_ref().unwrap()));
                rec(&mut o, 0x002C, &d);
            }
            rec(&mut o, 0x0268, &[]);
        }
        // fonts: a payload containing bytes that look like BrtBeginCellXFs (0xE9 0x04)
        rec(&mut o, 0x0263, &1u32.to_le_bytes());
        let mut font = vec![0xDC, 0, 0, 0, 0x90, 0x01, 0, 0, 0, 2, 0, 0, 7, 1, 0, 0, 0, 0, 0, 0xFF, 2];
        font.extend_from_slice(&wide("Calibri\u{04E9}"));
        rec(&mut o, 0x002B, &font);
        rec(&mut o, 0x0264, &[]);
        // cell style xfs first (must not be mistaken for cell xfs): date format 14
        rec(&mut o, 0x0272, &1u32.to_le_bytes());
        rec(&mut o, 0x002F, &[0xFF, 0xFF, 14, 0, 0, 0, 0, 0, 0, 0, 0, 0, 0x10, 0x10, 0, 0]);
        rec(&mut o, 0x0273, &[]);
        rec(&mut o, 0x0269, &(book.xfs.len() as u32).to_le_bytes());
        for f in &book.xfs {
            let mut d = vec![0u8, 0];
            d.extend_from_slice(&f.id.to_le_bytes());
            d.extend_from_slice(&[0, 0, 0, 0, 0, 0, 0, 0, 0x10, 0x10, 0, 0]);
            rec(&mut o, 0x002F, &d);
        }
        rec(&mut o, 0x026A, &[]);
        rec(&mut o, 0x0117, &[]);
        parts.push(Part { name: "xl/styles.bin".into(), data: o, deflate: ch.deflate });
    }
    // ---- workbook
    {
        let mut o = vec![];
        rec(&mut o, 0x0083, &[]);
        let mut fv = vec![0u8; 16];
        fv.extend_from_slice(&wide("xl"));
        fv.extend_from_slice(&wide("7"));
        fv.extend_from_slice(&wide("7"));
        fv.extend_from_slice(&wide("22228"));
        rec(&mut o, 0x0080, &fv);
        let mut wp = ((book.date1904 as u32) | 0x20).to_le_bytes().to_vec();
        wp.extend_from_slice(&0x0002_8C0Du32.to_le_bytes());
        wp.extend_from_slice(&wide(""));
        rec(&mut o, 0x0099, &wp);
        rec(&mut o, 0x0087, &[]);
        // window geometry whose bytes look like BrtBundleSh / BrtEndBundleShs ids
        let mut bv = vec![];
        for v in [0x9Cu32, 0x90, 400, 0x9C90] {
            bv.extend_from_slice(&v.to_le_bytes());
        }
        bv.extend_from_slice(&[0x58, 0x02, 0, 0, 0, 0, 0, 0, 0, 0, 0, 0, 0x78]);
        rec(&mut o, 0x009E, &bv);
        rec(&mut o, 0x0088, &[]);
        noise.maybe(&mut o, false);
        rec(&mut o, 0x008F, &[]);
        for (i, sh) in book.sheets.iter().enumerate() {
            let mut d = match sh.visible {
                Visible::Visible => 0u32,
                Visible::Hidden => 1,
                Visible::VeryHidden => 2,
            }
            .to_le_bytes()
            .to_vec();
            d.extend_from_slice(&(i as u32 + 1).to_le_bytes());
            d.extend_from_slice(&wide(&format!("rId{}", i + 1)));
            d.extend_from_slice(&wide(&sh.name));
            rec(&mut o, 0x009C, &d);
        }
        rec(&mut o, 0x0090, &[]);
        if !extra.xtis.is_empty() || !extra.names.is_empty() {
            rec(&mut o, 0x0161, &[]);
            rec(&mut o, 0x0165, &[]);
            let mut d = (extra.xtis.len() as u32).to_le_bytes().to_vec();
            for x in &extra.xtis {
                d.extend_from_slice(&0u32.to_le_bytes());
                d.extend_from_slice(&x.0.to_le_bytes());
                d.extend_from_slice(&x.1.to_le_bytes());
            }
            rec(&mut o, 0x016A, &d);
            rec(&mut o, 0x0162, &[]);
            for (name, rgce) in &extra.names {
                let mut d = 0u32.to_le_bytes().to_vec();
                d.push(0);
                d.extend_from_slice(&0xFFFF_FFFFu32.to_le_bytes());
                d.extend_from_slice(&wide(name));
                d.extend_from_slice(&parsed_formula(rgce));
                d.extend_from_slice(&0xFFFF_FFFFu32.to_le_bytes());
                rec(&mut o, 0x0027, &d);
            }
        }
        rec(&mut o, 0x009D, &[0x64, 0, 0, 0, 0xFC, 0xA9, 0xF1, 0xD2, 0x4D, 0x62, 0x50, 0x3F, 1, 0, 0, 0, 0x6A, 0, 0, 0, 0, 0, 0, 0, 1, 0]);
        rec(&mut o, 0x009B, &[0]);
        rec(&mut o, 0x0084, &[]);
        parts.push(Part { name: "xl/workbook.bin".into(), data: o, deflate: ch.deflate });
    }
    rels.push_str("<Relationship Id=\"rId100\" Type=\"http://schemas.openxmlformats.org/officeDocument/2006/relationships/styles\" Target=\"styles.bin\"/><Relationship Id=\"rId101\" Type=\"http://schemas.openxmlformats.org/officeDocument/2006/relationships/sharedStrings\" Target=\"sharedStrings.bin\"/></Relationships>");
    parts.push(Part { name: "xl/_rels/workbook.bin.rels".into(), data: rels.into_bytes(), deflate: ch.deflate });
    parts.push(Part::new("_rels/.rels", b"<?xml version=\"1.0\" encoding=\"UTF-8\" standalone=\"yes\"?><Relationships xmlns=\"http://schemas.openxmlformats.org/package/2006/relationships\"><Relationship Id=\"rId1\" Type=\"http://schemas.openxmlformats.org/officeDocument/2006/relationships/officeDocument\" Target=\"xl/workbook.bin\"/></Relationships>".to_vec()));
    parts.push(Part::new("[Content_Types].xml", b"<?xml version=\"1.0\" encoding=\"UTF-8\" standalone=\"yes\"?><Types xmlns=\"http://schemas.openxmlformats.org/package/2006/content-types\"><Default Extension=\"bin\" ContentType=\"application/vnd.ms-excel.sheet.binary.macroEnabled.main\"/><Default Extension=\"rels\" ContentType=\"application/vnd.openxmlformats-package.relationships+xml\"/></Types>".to_vec()));
    if let Some(v) = &ch.vba {
        parts.push(Part::new("xl/vbaProject.bin", v.clone()));
    }
    parts.reverse();
    let counts = noise.counts;
    Encoded { bytes: zipw::build(&parts), cell_feats, counts }
}

/// the statement's mapping for xlsb values (numbers compared numerically by the oracle)
pub fn expect_values(book: &MBook, sh: &MSheet) -> Expect {
    let mut e = Expect::default();
    for (p, c) in &sh.cells {
        let d = match &c.val {
            // every xlsb cell carries a style index: no style = cell format 0
            Val::Num(x) => dt(*x, book.fmt_class(c.xf.or(Some(0))), book.date1904),
            Val::Str(s) => Data::String(s.clone()),
            Val::Bool(b) => Data::Bool(*b),
            Val::Err(k) => k.data(),
            Val::IsoDate(_) | Val::IsoDuration(_) | Val::Blank => {
                if c.formula.is_some() {
                    // written as BrtFmlaNum with a zero result
                    dt(0.0, book.fmt_class(c.xf.or(Some(0))), book.date1904)
                } else {
                    continue;
                }
            }
        };
        e.cells.insert(*p, d);
    }
    e
}
