//! Logical workbook model shared by all reference encoders and oracles.

use calamine::{CellErrorType, Data, ExcelDateTime, ExcelDateTimeType};
use std::collections::BTreeMap;

#[derive(Clone, Copy, Debug, PartialEq, Eq, Hash)]
pub enum ErrKind {
    Div0,
    NA,
    Name,
    Null,
    Num,
    Ref,
    Value,
    /// 0x2B, only expressible in the binary formats (BIFF8 / BIFF12)
    GettingData,
}

pub const ALL_ERRS: [ErrKind; 7] = [
    ErrKind::Div0,
    ErrKind::NA,
    ErrKind::Name,
    ErrKind::Null,
    ErrKind::Num,
    ErrKind::Ref,
    ErrKind::Value,
];

impl ErrKind {
    pub fn text(self) -> &'static str {
        match self {
            ErrKind::Div0 => "#DIV/0!",
            ErrKind::NA => "#N/A",
            ErrKind::Name => "#NAME?",
            ErrKind::Null => "#NULL!",
            ErrKind::Num => "#NUM!",
            ErrKind::Ref => "#REF!",
            ErrKind::Value => "#VALUE!",
            ErrKind::GettingData => "#GETTING_DATA",
        }
    }
    /// BIFF / XLSB error code
    pub fn code(self) -> u8 {
        match self {
            ErrKind::Null => 0x00,
            ErrKind::Div0 => 0x07,
            ErrKind::Value => 0x0F,
            ErrKind::Ref => 0x17,
            ErrKind::Name => 0x1D,
            ErrKind::Num => 0x24,
            ErrKind::NA => 0x2A,
            ErrKind::GettingData => 0x2B,
        }
    }
    pub fn data(self) -> Data {
        Data::Error(match self {
            ErrKind::Div0 => CellErrorType::Div0,
            ErrKind::NA => CellErrorType::NA,
            ErrKind::Name => CellErrorType::Name,
            ErrKind::Null => CellErrorType::Null,
            ErrKind::Num => CellErrorType::Num,
            ErrKind::Ref => CellErrorType::Ref,
            ErrKind::Value => CellErrorType::Value,
            ErrKind::GettingData => CellErrorType::GettingData,
        })
    }
}

/// classification of a number format: 0 other, 1 date/time, 2 elapsed time
#[derive(Clone, Copy, Debug, PartialEq, Eq, Hash)]
pub enum FmtClass {
    Other,
    Date,
    Duration,
}

#[derive(Clone, Debug)]
pub struct NumFmt {
    /// built-in id (no format string written) or custom id (>= 164) with its code
    pub id: u16,
    pub code: Option<String>,
    pub class: FmtClass,
}

#[derive(Clone, Debug, PartialEq)]
pub enum Val {
    Num(f64),
    Str(String),
    Bool(bool),
    Err(ErrKind),
    /// ISO 8601 date / date-time text (xlsx t="d", ods date)
    IsoDate(String),
    /// ISO 8601 duration text (ods time)
    IsoDuration(String),
    /// a cell that exists in the file but holds no value (styled blank)
    Blank,
}

#[derive(Clone, Debug)]
pub struct MCell {
    pub val: Val,
    /// index into MBook::xfs (cell formats); None = no style attribute
    pub xf: Option<usize>,
    /// formula text (A1 notation, no leading '='); the value is then the cached result
    pub formula: Option<String>,
}

impl MCell {
    pub fn v(val: Val) -> MCell {
        MCell {
            val,
            xf: None,
            formula: None,
        }
    }
}

#[derive(Clone, Copy, Debug, PartialEq, Eq, Hash)]
pub enum SheetKind {
    Work,
    Chart,
    Dialog,
    Macro,
    Vba,
}

#[derive(Clone, Copy, Debug, PartialEq, Eq, Hash)]
pub enum Visible {
    Visible,
    Hidden,
    VeryHidden,
}

pub type Pos = (u32, u32);
pub type Rect = (Pos, Pos);

#[derive(Clone, Debug)]
pub struct MTable {
    pub name: String,
    pub columns: Vec<String>,
    pub rect: Rect,
    /// None = attribute absent (defaults: header 1, totals 0)
    pub header_rows: Option<u32>,
    pub totals_rows: Option<u32>,
}

/// an xlsx shared-formula group: the master holds `text`; members hold only the group index
#[derive(Clone, Debug)]
pub struct MShared {
    pub si: u32,
    pub rect: Rect,
    pub master: Pos,
    pub text: String,
}

#[derive(Clone, Debug)]
pub struct MSheet {
    pub name: String,
    pub kind: SheetKind,
    pub visible: Visible,
    pub cells: BTreeMap<Pos, MCell>,
    pub merges: Vec<Rect>,
    pub tables: Vec<MTable>,
    pub shared: Vec<MShared>,
}

impl MSheet {
    pub fn new(name: &str) -> MSheet {
        MSheet {
            name: name.to_string(),
            kind: SheetKind::Work,
            visible: Visible::Visible,
            cells: BTreeMap::new(),
            merges: vec![],
            tables: vec![],
            shared: vec![],
        }
    }
}

#[derive(Clone, Debug, Default)]
pub struct MBook {
    pub sheets: Vec<MSheet>,
    pub date1904: bool,
    /// cell formats (cellXfs / XF records): each refers to a number format
    pub xfs: Vec<NumFmt>,
    pub defined_names: Vec<(String, String)>,
}

impl MBook {
    pub fn fmt_class(&self, xf: Option<usize>) -> FmtClass {
        xf.and_then(|i| self.xfs.get(i)).map_or(FmtClass::Other, |f| f.class)
    }
}

pub fn dt(v: f64, class: FmtClass, is_1904: bool) -> Data {
    match class {
        FmtClass::Other => Data::Float(v),
        FmtClass::Date => Data::DateTime(ExcelDateTime::new(v, ExcelDateTimeType::DateTime, is_1904)),
        FmtClass::Duration => Data::DateTime(ExcelDateTime::new(v, ExcelDateTimeType::TimeDelta, is_1904)),
    }
}

/// spreadsheet column letters (bijective base 26), 0-based column
pub fn col_name(mut c: u32) -> String {
    let mut s = Vec::new();
    loop {
        s.push(b'A' + (c % 26) as u8);
        if c < 26 {
            break;
        }
        c = c / 26 - 1;
    }
    s.reverse();
    String::from_utf8(s).unwrap()
}

pub fn a1(p: Pos) -> String {
    format!("{}{}", col_name(p.1), p.0 + 1)
}

pub fn a1_rect(r: Rect) -> String {
    if r.0 == r.1 {
        a1(r.0)
    } else {
        format!("{}:{}", a1(r.0), a1(r.1))
    }
}

/// Expected range of a sheet: tight bounding box of the expected non-empty cells.
#[derive(Clone, Debug, Default)]
pub struct Expect {
    pub cells: BTreeMap<Pos, Data>,
}

impl Expect {
    pub fn bounds(&self) -> Option<Rect> {
        if self.cells.is_empty() {
            return None;
        }
        let r0 = self.cells.keys().map(|p| p.0).min().unwrap();
        let r1 = self.cells.keys().map(|p| p.0).max().unwrap();
        let c0 = self.cells.keys().map(|p| p.1).min().unwrap();
        let c1 = self.cells.keys().map(|p| p.1).max().unwrap();
        Some(((r0, c0), (r1, c1)))
    }
}

/// numeric equality that tolerates the Int/Float split of RK encodings
pub fn data_num_eq(a: &Data, b: &Data) -> bool {
    use calamine::DataType;
    match (a, b) {
        (Data::DateTime(x), Data::DateTime(y)) => x == y || (x.as_f64().is_nan() && format!("{:?}", x) == format!("{:?}", y)),
        (Data::DateTime(_), _) | (_, Data::DateTime(_)) => false,
        _ => match (a.is_int() || a.is_float(), b.is_int() || b.is_float()) {
            // (a NaN read back as the same NaN is equal: compare the bits)
            (true, true) => a.as_f64() == b.as_f64() || a.as_f64().map(f64::to_bits) == b.as_f64().map(f64::to_bits),
            _ => a == b,
        },
    }
}

/// equality of two cell values where a NaN equals the same NaN (bit for bit)
pub fn data_eq(a: &Data, b: &Data) -> bool {
    match (a, b) {
        (Data::Float(x), Data::Float(y)) => x == y || x.to_bits() == y.to_bits(),
        (Data::DateTime(x), Data::DateTime(y)) => x == y || (x.as_f64().is_nan() && format!("{:?}", x) == format!("{:?}", y)),
        _ => a == b,
    }
}

/// Compare a range read by calamine with the expectation. Returns (symptom, detail) of the first
/// disagreement. `num_eq`: compare numbers numerically (Int(3) == Float(3.0)).
pub fn compare_range(
    got: &calamine::Range<Data>,
    exp: &Expect,
    num_eq: bool,
) -> Option<(String, String)> {
    let eq = |a: &Data, b: &Data| if num_eq { data_num_eq(a, b) } else { data_eq(a, b) };
    match (exp.bounds(), got.start(), got.end()) {
        (None, None, None) => return None,
        (None, s, e) => {
            return Some(("range_not_empty".into(), format!("expected an empty range, got {:?}..{:?}", s, e)))
        }
        (Some(b), Some(s), Some(e)) => {
            if b.0 != s || b.1 != e {
                // find a more specific symptom first: is some expected cell misplaced?
                return Some(("bounds".into(), format!("expected {:?}..{:?}, got {:?}..{:?}", b.0, b.1, s, e)));
            }
        }
        (Some(b), _, _) => return Some(("range_empty".into(), format!("expected {:?}..{:?}, got an empty range", b.0, b.1))),
    }
    let (s, e) = exp.bounds().unwrap();
    if got.get_size() != ((e.0 - s.0 + 1) as usize, (e.1 - s.1 + 1) as usize) {
        return Some(("size".into(), format!("{:?}", got.get_size())));
    }
    // every expected cell at its absolute position
    for (p, v) in &exp.cells {
        match got.get_value(*p) {
            Some(g) if eq(g, v) => {}
            Some(g) => {
                let sym = if std::mem::discriminant(g) != std::mem::discriminant(v) && !(num_eq && data_num_eq(g, v)) {
                    if matches!(g, Data::Empty) {
                        "cell_missing"
                    } else {
                        "cell_type"
                    }
                } else {
                    "cell_value"
                };
                return Some((sym.into(), format!("at {:?} ({}) expected {:?}, got {:?}", p, a1(*p), v, g)));
            }
            None => return Some(("cell_outside".into(), format!("at {:?}", p))),
        }
    }
    // no extra used cell
    let used = got.used_cells().count();
    if used != exp.cells.len() {
        for (r, c, v) in got.used_cells() {
            let p = (s.0 + r as u32, s.1 + c as u32);
            if !exp.cells.contains_key(&p) {
                return Some(("extra_cell".into(), format!("at {:?} ({}) got {:?}", p, a1(p), v)));
            }
        }
        return Some(("used_count".into(), format!("{} vs {}", used, exp.cells.len())));
    }
    None
}
