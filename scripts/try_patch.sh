#!/bin/bash
# try_patch.sh <patch.diff|-R:commit> <ID> [tier] : apply a change to /repo, run the check, undo it.
# "-R:<commit>" reverts a fix commit (reverse patch) instead of applying a diff file.
p="$1"; id="$2"; tier="${3:-quick}"
cd /repo || exit 2
if [ -n "$(git status --porcelain --untracked-files=no)" ]; then echo "repo dirty"; exit 2; fi
if [[ "$p" == -R:* ]]; then
  c="${p#-R:}"
  git diff "$c^" "$c" | git apply -R || { echo "cannot reverse-apply $c"; exit 2; }
else
  git apply "$p" 2>/dev/null || git apply -C1 "$p" 2>/dev/null || { echo "cannot apply $p"; git reset -q --hard; exit 2; }
fi
cd /verif && ./check "$id" "$tier" ${4:+--seed $4}; rc=$?
git -C /repo reset -q --hard
echo "exit=$rc"
exit $rc
