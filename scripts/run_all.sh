#!/bin/bash
# run_all.sh [tier] [seed] : every registered check, one summary line each; exit 1 if any is not silent
tier="${1:-quick}"; seed="${2:-0}"; bad=0
cd /verif
for i in $(seq -w 1 20); do
  id="C$i"
  out=$(./check "$id" "$tier" --seed "$seed" 2>&1); rc=$?
  echo "$out" | grep -E "^(VIOLATION|INCONCLUSIVE)" | cut -c1-200
  echo "$out" | tail -1 | cut -c1-220
  [ $rc -ne 0 ] && { echo "  ^^^ exit=$rc"; bad=1; }
done
exit $bad
