#!/usr/bin/env python3
"""Generates /verif/MANIFEST.json from the table below (kept in one place so it is always valid)."""
import json, subprocess

CHECKS = {
 # id: (level, technique, text, note, design_ref)
}
exec(open('/verif/scripts/manifest_table.py').read())

props=[json.loads(l) for l in open('/verif/properties.jsonl')]
hook_commits=subprocess.run(['git','-C','/repo','log','--format=%H','--grep=^verif hooks'],capture_output=True,text=True).stdout.split()
m={
 "version":1,
 "setup_cmd":"cd /verif/harness && (test -f Cargo.lock || cp /repo/Cargo.lock .) && CARGO_NET_OFFLINE=true cargo build --release --offline",
 "hooks":{
   "guard":"cargo feature `verif` of calamine (off by default)",
   "enable":"the harness crate /verif/harness depends on calamine = { path = \"/repo\", features = [\"verif\", \"dates\"] }; every ./check invocation runs `cargo build --release --offline` first, which rebuilds calamine from /repo's working tree",
   "baseline_off_cmd":"/verif/scripts/baseline.sh",
   "source_commits":hook_commits,
   "add_only":True
 },
 "engines":[{"name":"harness","path":"/verif/harness","serves_properties":sorted(CHECKS.keys()),
   "kind_free_text":"Rust supervisor + 16 worker processes; workload generators = independent reference encoders (xlsx/xls/xlsb/ods/cfb/ovba); monitors: reference-model oracles at the public API, panic/overflow/allocation/CPU monitors, exhaustive sweeps through feature-gated hooks"}],
 "checks":[],
 "not_applicable":[],
 "notes":"exit codes of every command: 0 held / 1 violation (VIOLATION line) / 2 inconclusive (build failure, harness error, mandatory bucket not observed). Known findings: /verif/known_findings.json. Design: /verif/DESIGN.md."
}
for p in props:
    i=p['id']
    if i in CHECKS:
        level,tech,text,note,ref=CHECKS[i]
        m["checks"].append({
          "property_id":i,
          "quick_cmd":f"./check {i} quick",
          "thorough_cmd":f"./check {i} thorough",
          "evidence_file":f"/verif/evidence/{i}.json",
          "replay_cmd_template":f"./check {i} --replay {{path}}",
          "engine":"harness",
          "level_claimed":{"category":level,"text":text,"design_ref":ref},
          "level_note":note,
          "technique":tech})
    else:
        m["not_applicable"].append({"property_id":i,"reason":NOT_YET.get(i,"check not built yet (work in progress; the design in DESIGN.md §7 applies)")})
json.dump(m,open('/verif/MANIFEST.json','w'),indent=1)
import jsonschema
jsonschema.validate(m,json.load(open('/root/.vp/MANIFEST.schema.json')))
print("MANIFEST ok:",len(m['checks']),"checks,",len(m['not_applicable']),"not claimed")
