#!/bin/bash
# c06_sanitizers.sh [miri_cases] : the sanitizer stage of `./check C06 thorough`.
#   1. Miri (undefined-behaviour interpreter): a slice of the C06 fault enumeration over tiny stored
#      containers is written to files natively, then 16 interpreter processes run calamine on them.
#   2. AddressSanitizer: the harness is rebuilt with -Zsanitizer=address (nightly) and the whole
#      C06 quick corpus is re-run under it (supervisor + workers, same monitors).
# Results are merged into /verif/evidence/C06.json (coverage.sanitizers). Exit 0 = nothing
# reported, 1 = a report (VIOLATION line printed), 2 = the stage could not run (inconclusive).
N="${1:-1024}"
SEED="${VERIF_SEED:-0}"
T=/verif/target
CORPUS=$T/tiny-corpus; MLOG=$T/miri-logs; ALOG=$T/asan-logs
export CARGO_NET_OFFLINE=true
cd /verif/harness || exit 2
rc=0
note() { echo "$@"; }

# ---------------------------------------------------------------- corpus (native build exists: ./check built it)
$T/release/harness --tiny-c06-dump "$CORPUS" "$N" > $T/tiny-dump.log 2>&1 || { note "INCONCLUSIVE: C06 sanitizers: cannot write the tiny corpus"; exit 2; }
files=$(ls "$CORPUS" | wc -l)

# ---------------------------------------------------------------- Miri
rm -rf "$MLOG"; mkdir -p "$MLOG"
t0=$(date +%s)
export MIRIFLAGS="-Zmiri-disable-isolation"
# one warm-up run builds the interpreter target (shard 16 of 16 = no file)
CARGO_TARGET_DIR=$T/miri cargo +nightly miri run --offline -- --tiny-c06-files "$CORPUS" 16 16 > "$MLOG/build.log" 2>&1
if ! grep -q "TINY-RUN" "$MLOG/build.log"; then
  note "INCONCLUSIVE: C06 sanitizers: the Miri build did not run (see $MLOG/build.log)"; miri_ok=0; rc=2
else
  miri_ok=1
  # a shard's interpreter process ends at the first thing Miri reports (a finding, or an operation
  # Miri does not support such as CPUID in a dependency): it is restarted after that case
  run_shard() {
    local s=$1 start=0 attempt n log
    for attempt in 0 1 2 3 4 5 6 7 8 9 10 11; do
      log="$MLOG/shard-$s.$attempt.log"
      CARGO_TARGET_DIR=$T/miri timeout 7200 cargo +nightly miri run --offline -- --tiny-c06-files "$CORPUS" "$s" 16 "$start" > "$log" 2>&1
      echo "exit=$?" >> "$log"
      grep -q "^TINY-RUN" "$log" && break
      n=$(grep -c "^TINY-CASE" "$log")
      [ "$n" = 0 ] && break
      start=$((start + n))
    done
  }
  for s in $(seq 0 15); do
    run_shard "$s" &
  done
  wait
fi
t1=$(date +%s)

# ---------------------------------------------------------------- ASan
rm -rf "$ALOG"; mkdir -p "$ALOG"
asan_ok=1
[ -n "$C06_SAN_SKIP_ASAN" ] && asan_ok=skip
if [ $asan_ok = 1 ]; then
  RUSTFLAGS="-Zsanitizer=address -Cforce-frame-pointers=yes" CARGO_TARGET_DIR=$T/asan \
    cargo +nightly build --release --offline --target x86_64-unknown-linux-gnu > "$ALOG/build.log" 2>&1 || asan_ok=0
fi
if [ $asan_ok = 1 ]; then
  VERIF_WALL_BUDGET_FACTOR=8 VERIF_EVIDENCE_SUFFIX=.asan ASAN_OPTIONS="detect_leaks=0:exitcode=98:log_path=$ALOG/asan" \
    $T/asan/x86_64-unknown-linux-gnu/release/harness C06 quick --seed "$SEED" > "$ALOG/run.log" 2>&1
  arc=$?
  grep -E "^(VIOLATION|INCONCLUSIVE|  class:)" "$ALOG/run.log" | sed 's/^VIOLATION property=C06/VIOLATION property=C06/'
  tail -1 "$ALOG/run.log" | sed 's/^/asan: /'
  [ $arc = 1 ] && rc=1
  [ $arc = 2 ] && [ $rc = 0 ] && rc=2
elif [ $asan_ok = 0 ]; then
  note "INCONCLUSIVE: C06 sanitizers: the ASan build failed (see $ALOG/build.log)"; [ $rc = 0 ] && rc=2
fi
t2=$(date +%s)

# ---------------------------------------------------------------- classify Miri output, merge evidence
python3 - "$CORPUS" "$MLOG" "$ALOG" "$files" "$miri_ok" "$asan_ok" "$((t1-t0))" "$((t2-t1))" <<'PY'
import sys, os, re, json, hashlib, shutil, glob
corpus, mlog, alog, files, miri_ok, asan_ok, tm, ta = sys.argv[1:9]
rc = 0
miri = {"ran": miri_ok == "1", "corpus_files": int(files), "cases_run": 0, "shards": 16, "ub_reports": 0,
        "panics_or_bound_faults": 0, "incomplete_shards": [], "wall_s": int(tm), "flags": "-Zmiri-disable-isolation",
        "what": "calamine (and every dependency it reaches: zip, quick-xml, encoding_rs, byteorder, codepage) interpreted by Miri on faulted tiny stored containers; all read APIs of C06 are driven"}
classes = {}
known_prefixes = []
try:
    for f in json.load(open("/verif/known_findings.json"))["findings"]:
        if f.get("property") == "C06" and f.get("status") == "open" and f.get("class_prefix"):
            known_prefixes.append((f["class_prefix"], f.get("what", "")))
except Exception:
    pass
miri["skipped_unsupported_by_miri"] = []
miri["known_findings_hit"] = []
if miri_ok == "1":
    for s in range(16):
        logs = sorted(glob.glob("%s/shard-%d.*.log" % (mlog, s)), key=lambda p: int(p.rsplit(".", 2)[1]))
        finished = False
        for p in logs:
            txt = open(p, errors="replace").read()
            cases = re.findall(r"^TINY-CASE (\S+)", txt, re.M)
            miri["cases_run"] += len(cases)
            if re.search(r"^TINY-RUN", txt, re.M):
                finished = True
            for m in re.finditer(r"^TINY-FAILURE class=(.*?) detail=", txt, re.M):
                c = m.group(1) if m.group(1).startswith("c06|") else "c06|" + m.group(1)
                kn = [w for (pre, w) in known_prefixes if c.startswith(pre)]
                if kn:
                    miri["known_findings_hit"].append(c)
                    print("KNOWN-FINDING: property=C06 %s -- %s (Miri stage)" % (c, kn[0][:120]))
                    continue
                classes.setdefault(c, (cases[-1] if cases else "?", "panic / allocation bound under Miri"))
                miri["panics_or_bound_faults"] += 1
            ub = re.search(r"^error: (Undefined Behavior|abnormal termination|unsupported operation|memory leaked|.*(?:data race|deadlock)).*$", txt, re.M)
            if not ub:
                continue
            msg = re.sub(r"\d+", "N", ub.group(0))[:160]
            blk = txt[ub.start():]
            case = cases[-1] if cases else "?"
            if "unsupported operation" in msg:
                miri["skipped_unsupported_by_miri"].append({"case": case, "reason": msg})
                continue
            # an allocation refused by the harness's bound monitor announces itself before the abort
            fl = [json.loads(l[2:]) for l in txt.splitlines() if l.startswith("F {")]
            if "abnormal termination" in msg and fl and fl[-1].get("kind") == "alloc":
                c = "alloc|%s|refused" % fl[-1].get("site", "?")
                kn = [w for (pre, w) in known_prefixes if c.startswith(pre)]
                if kn:
                    miri["known_findings_hit"].append(c)
                    print("KNOWN-FINDING: property=C06 %s -- %s (Miri stage)" % (c, kn[0][:120]))
                else:
                    classes.setdefault(c, (case, blk[:3000]))
                    miri["panics_or_bound_faults"] += 1
                continue
            fr = re.search(r"^\s*\d+: (\S.*)\n\s*at /repo/src/([^:\s]+):\d+", blk, re.M)
            where = re.search(r"^\s*--> (\S+?):\d+:\d+", blk, re.M)
            if fr:
                fn = re.search(r"([A-Za-z_][A-Za-z0-9_]*)\s*$", re.sub(r"::\{closure#\d+\}", "", fr.group(1).strip()))
                w = "%s::%s" % (fr.group(2), fn.group(1) if fn else "?")
            else:
                w = where.group(1) if where else "?"
                w = "/".join(w.split("/")[-3:])
            miri["ub_reports"] += 1
            classes.setdefault("miri|%s|%s" % (msg, w), (case, blk[:3000]))
        if not finished:
            miri["incomplete_shards"].append({"shard": s, "reason": "no summary line after %d attempts" % len(logs)})
for cls, (case, detail) in classes.items():
    h = hashlib.sha1(cls.encode()).hexdigest()[:16]
    d = "/verif/replays/C06/miri-" + h
    os.makedirs(d, exist_ok=True)
    src = os.path.join(corpus, case)
    if os.path.exists(src):
        shutil.copy(src, d + "/input.bin")
    json.dump({"property": "C06", "stage": "miri", "class": cls, "corpus_file": case, "report": detail,
               "replay_cmd": "cd /verif/harness && MIRIFLAGS=-Zmiri-disable-isolation CARGO_TARGET_DIR=/verif/target/miri cargo +nightly miri run --offline -- --tiny-c06-files <dir holding input.bin renamed to %s> 0 1" % case},
              open(d + "/case.json", "w"), indent=1)
    print("VIOLATION property=C06 replay=%s/case.json" % d)
    print("  class: " + cls)
    rc = 1
if miri["incomplete_shards"] or (miri_ok == "1" and miri["cases_run"] == 0):
    print("INCONCLUSIVE: C06 sanitizers: Miri shards incomplete: %s" % json.dumps(miri["incomplete_shards"])[:400])
    rc = rc or 2
asan = {"ran": asan_ok == "1", "wall_s": int(ta), "reports": 0,
        "what": "the whole C06 quick corpus re-run by an AddressSanitizer build of harness + calamine + dependencies (rustc -Zsanitizer=address, halt on first report per worker: exit code 98 is attributed to the announced case by the supervisor)"}
reps = glob.glob(alog + "/asan.*")
asan["reports"] = len(reps)
asan["report_files"] = [os.path.basename(r) for r in reps][:10]
ep = "/verif/evidence/C06.asan.json"
if os.path.exists(ep):
    e = json.load(open(ep))
    asan.update({"evaluations": e["coverage"].get("evaluations"), "distinct_nontrivial": e["coverage"].get("distinct_nontrivial"),
                 "worker_deaths_attributed": e["coverage"].get("worker_deaths_attributed"), "verdict": e.get("verdict"), "violations": e.get("violations")})
    os.remove(ep)
mp = "/verif/evidence/C06.json"
if os.path.exists(mp):
    e = json.load(open(mp))
    e["coverage"]["sanitizers"] = {"miri": miri, "asan": asan}
    if rc == 1:
        e["verdict"] = "violated"; e["violations"] = int(e.get("violations", 0)) + len(classes)
    elif rc == 2 and e.get("verdict") == "held":
        e["verdict"] = "inconclusive"
    json.dump(e, open(mp, "w"), indent=1)
print("C06 sanitizers: miri cases=%d ub_reports=%d panics=%d (%ss); asan evaluations=%s reports=%d (%ss)" % (
    miri["cases_run"], miri["ub_reports"], miri["panics_or_bound_faults"], tm, asan.get("evaluations"), asan["reports"], ta))
sys.exit(rc)
PY
prc=$?
[ $prc = 1 ] && rc=1
[ $prc = 2 ] && [ $rc = 0 ] && rc=2
exit $rc
