#!/bin/bash
# mutant_sweep.sh [tier] [glob] : apply every seeded change (or those matching seeded/<glob>) to /repo in turn, run the property's check,
# undo the change, record the outcome in seeded/<id>/meta.json (detected_by) and seeded/RESULTS.md.
tier="${1:-quick}"; pat="${2:-C*-*}"
cd /verif
: > /tmp/mutant_sweep.tsv
for d in seeded/$pat/; do
  m=$(basename "$d"); id="${m%-*}"
  p="/verif/$d/patch.diff"; [ -f "/verif/$d/patch.rebased.diff" ] && p="/verif/$d/patch.rebased.diff"
  out=$(scripts/try_patch.sh "$p" "$id" "$tier" 2>&1); rc=$?
  if echo "$out" | grep -q "cannot apply"; then echo -e "$m\t$id\tNOAPPLY\t\t$(basename $p)" >> /tmp/mutant_sweep.tsv; continue; fi
  cls=$(echo "$out" | grep -m1 "^  class:" | sed 's/^  class: //' | cut -c1-200)
  n=$(echo "$out" | grep -c "^VIOLATION")
  echo -e "$m\t$id\t$rc\t$n\t$(basename $p)\t$cls" >> /tmp/mutant_sweep.tsv
done
python3 - "$tier" <<'PY'
import json,sys
tier=sys.argv[1]
new=[l.rstrip('\n').split('\t') for l in open('/tmp/mutant_sweep.tsv')]
# accumulate: results of earlier sweeps are kept for the changes not swept this time
import os
acc='/verif/seeded/results.%s.tsv'%tier
old=[l.rstrip('\n').split('\t') for l in open(acc)] if os.path.exists(acc) else []
d={r[0]:r for r in old}
for r in new: d[r[0]]=r
rows=[d[k] for k in sorted(d)]
open(acc,'w').write('\n'.join('\t'.join(r) for r in rows)+'\n')
out=["# Seeded changes vs. checks (%s tier, seed 0)\n"%tier,
     "Produced by scripts/mutant_sweep.sh: each change applied to /repo, the property's check run, the change undone.\n",
     "| change | check | exit | violation classes | patch used | first class |","|---|---|---|---|---|---|"]
for r in rows:
    r+=['']*(6-len(r))
    out.append("| %s | %s %s | %s | %s | %s | `%s` |"%(r[0],r[1],tier,r[2],r[3],r[4],r[5].replace('|','¦')))
    if r[0] not in {n[0] for n in new}: continue
    mp='/verif/seeded/%s/meta.json'%r[0]
    try:
        m=json.load(open(mp))
    except Exception: continue
    m['detected_by']={"check":r[1],"tier":tier,"exit":r[2],"violation_classes":r[3],"first_class":r[5],"patch":r[4]} if r[2]=='1' else {"check":r[1],"tier":tier,"exit":r[2],"detected":False}
    json.dump(m,open(mp,'w'),indent=1)
open('/verif/seeded/RESULTS.md','w').write('\n'.join(out)+'\n')
print('\n'.join(out))
PY
