#!/bin/bash
# confirm_mutant.sh <Cxx> <k> [store-index] : independently re-confirms a sub-agent's seeded change in its scratch worktree:
# compiles, pinned suite passes with it, its demonstration fails with it and passes without it.
# On success stores it as /verif/seeded/<Cxx>-<k>/ (patch.diff, demo.rs, README.md, meta.json).
id="$1"; k="$2"; store="${3:-$2}"; wt="/tmp/mut/$id"; src="$wt/_out/mutant$k"
[ -f "$src/patch.diff" ] || { echo "no patch"; exit 2; }
cd "$wt" || exit 2
git checkout -q -- . ; rm -f tests/demo_verif_*.rs
cp "$src/demo.rs" tests/demo_verif_$k.rs
echo "== without patch: demo must pass"
CARGO_NET_OFFLINE=true cargo test --offline $FEATURES --test demo_verif_$k >/tmp/mut/$id.demo0.log 2>&1; r0=$?
git apply "$src/patch.diff" || { echo "patch does not apply"; exit 2; }
echo "== with patch: demo must fail"
CARGO_NET_OFFLINE=true cargo test --offline $FEATURES --test demo_verif_$k >/tmp/mut/$id.demo1.log 2>&1; r1=$?
rm -f tests/demo_verif_$k.rs
echo "== with patch: pinned suite must pass"
/verif/scripts/baseline.sh "$wt" >/tmp/mut/$id.base.log 2>&1; rb=$?
git checkout -q -- . 
echo "demo_without=$r0 demo_with=$r1 baseline_with=$rb"
if [ $r0 -eq 0 ] && [ $r1 -ne 0 ] && [ $rb -eq 0 ]; then
  d=/verif/seeded/$id-$store; mkdir -p $d
  cp "$src/patch.diff" "$src/demo.rs" $d/; cp "$src/README.md" $d/README.md 2>/dev/null
  python3 - "$id" "$store" "$d" <<'PY'
import json,sys,subprocess
id,k,d=sys.argv[1:4]
head=subprocess.run(['git','-C','/tmp/mut/'+id,'rev-parse','HEAD'],capture_output=True,text=True).stdout.strip()
readme=open(d+'/README.md').read() if __import__('os').path.exists(d+'/README.md') else ''
json.dump({"property":id,"mutant":int(k),"base_commit":head,
 "origin":"written by an independent sub-agent that saw only the property text and a scratch worktree",
 "needs_to_manifest":"see README.md (trigger section)",
 "confirmed":{"cmd":"/verif/scripts/confirm_mutant.sh %s %s"%(id,k),"demo_passes_without_patch":True,"demo_fails_with_patch":True,"pinned_suite_passes_with_patch":True},
 "detected_by":None},open(d+'/meta.json','w'),indent=1)
PY
  echo "CONFIRMED -> $d"
else
  echo "NOT CONFIRMED (see /tmp/mut/$id.*.log)"; exit 1
fi
