#!/bin/bash
# revert_sweep.sh : for every "fixed" entry of known_findings.json reverse-apply the fix commit to
# /repo, run the property's quick check and report whether the violation returns.
cd /verif
python3 - <<'PY' > /tmp/fixed_list.txt
import json
for f in json.load(open('/verif/known_findings.json'))['findings']:
    if f['status']=='fixed': print(f['commit'], f['property'])
PY
while read c id; do
  out=$(scripts/try_patch.sh "-R:$c" "$id" quick 2>&1); rc=$?
  if echo "$out" | grep -q "cannot reverse-apply"; then echo "$c $id NOAPPLY"; git -C /repo reset -q --hard; continue; fi
  cls=$(echo "$out" | grep -m2 "^  class:" | cut -c1-160 | tr '\n' ';')
  echo "$c $id exit=$rc $cls"
done < /tmp/fixed_list.txt
