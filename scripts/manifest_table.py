NOT_YET = {}
CHECKS = {
 "C05": ("exploration",
   "runtime monitoring: operation histories vs executable reference model, invariants at quiescent points",
   "Random and exhaustively enumerated (length <= 3 on a 3x3 lattice) operation histories over Range<Data|String|usize> are executed on the real code; after every operation the whole structure is compared through the public API with a BTreeMap model (bounds, rows, cells, used_cells, get/get_value/Index, headers), under a panic/overflow monitor. Held = no disagreement on the histories listed in the evidence file.",
   "trusts the 40-line executable model of the statement; preconditions documented as panicking are not generated; bounded history length (<= 12 ops) and area (<= ~100x100)",
   "DESIGN.md §7 C05"),
}
CHECKS["C01"] = ("exploration",
   "runtime monitoring: generated workbooks in many physical encodings vs reference-model oracle; exhaustive hook sweep of the cell-name parser",
   "Logical workbooks with unique cell values are written by an independent reference encoder in several random physical encodings (choice vector of every legal variation named in the statement), read back through worksheet_range / worksheet_range_ref under a panic monitor, and compared cell by cell and bound by bound with the model; the cell-name parser is swept exhaustively through a feature-gated hook. Held = no disagreement on the files described in the evidence.",
   "trusted base: the reference encoder implements ECMA-376/OPC; bounding boxes are kept below ~250k cells because Range is dense",
   "DESIGN.md §7 C01")
CHECKS["C09"] = ("exploration",
   "runtime monitoring: real RangeDeserializer drained step by step vs reference conversion table",
   "Random ranges x header configurations x 12 compiled target shapes; every record, every error (kind and absolute position) and size_hint at every step are compared with a reference conversion table written from the statement and rustdoc.",
   "trusts the reference conversion table; header names unique; numeric strings plain decimals",
   "DESIGN.md §7 C09")
CHECKS["C11"] = ("exploration",
   "runtime monitoring: exhaustive whole-day sweep + boundary sampling vs exact-arithmetic civil-from-days oracle",
   "Every whole-day serial 0..=2958465 in both date systems is converted by the real code and compared with an independent civil-from-days algorithm; fractional serials around millisecond/second/day boundaries, specials (huge, infinite, NaN, negative), durations, plain Int/Float cells, DataRef, ISO strings and the deserialize_as_* helpers are sampled; monotonicity is checked on consecutive days and on sampled pairs.",
   "trusts chrono for NaiveDate construction/comparison; ties within float error of the ms rounding accept both neighbours; serials in [60,61) only weakly constrained",
   "DESIGN.md §7 C11")
CHECKS["C15"] = ("exploration",
   "runtime monitoring: token-level reference translation vs files read through worksheet_formula; direct hook sweep with culprit isolation",
   "Master formulas are generated as token lists over the reference grammar; shared groups (column/row/block, non-monotone si, master anywhere) are written into xlsx files and every member's reported formula is compared with the token-level translation; the translation routine is additionally swept directly through a hook over (text, offset) pairs. A failing member is attributed to the token kinds the real routine mistranslates in isolation.",
   "references are generated so that translations stay inside the sheet; whole-row/column references are not generated; trusted base: the xlsx reference encoder",
   "DESIGN.md §7 C15")
CHECKS["C02"] = ("exploration",
   "runtime monitoring: generated BIFF8 workbooks vs reference-model oracle; RK decoding swept through a hook (all 2^32 words in thorough)",
   "Logical workbooks are written by an independent BIFF8 + compound-file encoder, every number in a randomly chosen applicable encoding (NUMBER / RK int / RK float / x100 / MULRK run), and read back through Xls::new + worksheet_range; values are compared numerically and by variant per record kind. The RK decoder is driven directly through a hook against a 10-line reference decoder.",
   "trusted base: the BIFF8/CFB reference encoders; CodePage 1200; empty-string LABELSST not generated",
   "DESIGN.md §7 C02")
CHECKS["C04"] = ("exploration",
   "runtime monitoring: one logical grid under many run-length plans vs reference-model oracle",
   "Random grids with adjacent duplicates, blank rows/columns and offsets are written by an independent ODS encoder under several run-length plans (maximal runs, explicit copies, random cuts; trailing empties absent/explicit/huge; covered cells; row wrapper elements) and every plan must read as the model grid through worksheet_range and worksheet_formula.",
   "trusted base: the ODS reference encoder; empty-text string cells not generated",
   "DESIGN.md §7 C04")
CHECKS["C13"] = ("exploration",
   "runtime monitoring: byte-exact stream comparison across random physical layouts (hook) + workbook equality through Xls::new",
   "The same stream sets are written under many physical layouts by an independent compound-file writer and read back byte for byte through a feature-gated hook around Cfb::new/get_stream; generated workbooks are opened under every layout and compared with the model.",
   "trusted base: the compound-file reference writer; stream names unique per container",
   "DESIGN.md §7 C13")
CHECKS["C12"] = ("exploration",
   "runtime monitoring: exhaustive single-cut enumeration of CONTINUE split points + random multi-cut plans vs string-equality oracle",
   "Shared-string tables are written with an explicit split plan; for small tables every single legal cut point x both re-compression choices is enumerated (pairs in thorough), large tables get random plans and forced cuts at the record limit, one of them with a string of 16384-36383 rich-text runs (rgRun block over 64 KiB); every string is referenced by a uniquely placed cell so that a mis-consumed fragment shows as a shift of all later strings. Sheet name, LABEL and FORMULA+STRING values are checked in 8-bit and 16-bit storage.",
   "trusted base: the SST/CONTINUE reference encoder; string headers are never split",
   "DESIGN.md §7 C12")
CHECKS["C03"] = ("exploration",
   "runtime monitoring: generated xlsb workbooks with interleaved ignorable records vs reference-model oracle; RK words swept through files (all 2^32 in thorough)",
   "Logical workbooks are written by an independent xlsb encoder with every cell record kind and 0..n ignorable records (real/future ids, 1-2 byte ids, 1-4 byte lengths, header-like payload bytes) between any two records, then read through worksheet_range / worksheet_range_ref and compared with the model; RK decoding is swept through generated sheets of BrtCellRk cells against a reference decoder.",
   "trusted base: the xlsb reference encoder; minimal varint encodings; block records only in pairs",
   "DESIGN.md §7 C03")
CHECKS["C18"] = ("exploration",
   "runtime monitoring: independent MS-OVBA compressor under five tokenisation strategies vs byte-equality oracle (hook sweep + whole projects through vba_project)",
   "Module sources are compressed by an independent compressor (literal-only, greedy, random tokenisation with overlapping/maximal copies, raw chunks, mixtures; self-checked against its own reference decompressor), decompressed through a hook around decompress_stream, and embedded in whole projects (xlsm/xlsb part, xls storage; several code pages, offsets, reference kinds, compound-file layouts) that are read through vba_project(); names, raw bytes, decoded text and reference names are compared.",
   "trusted base: the MS-OVBA reference compressor and dir-stream writer, encoding_rs for code pages",
   "DESIGN.md §7 C18")
CHECKS["C20"] = ("exploration",
   "runtime monitoring: generated encrypted containers (OOXML-in-CFB, FILEPASS, ODS manifest) and unencrypted controls vs error-variant oracle",
   "Encrypted OOXML packages (three EncryptionInfo variants, packages below/above the mini-stream cutoff, DataSpaces tree, containers without mini stream) in random compound-file layouts are opened as Xlsx and Xlsb; BIFF8 workbooks get a FILEPASS (XOR/RC4/CryptoAPI) at every globals position with ciphertext payloads, plus BIFF5-style 4-byte FILEPASS; ods manifests declare 1..4 encrypted entries. Each must fail with the reader's Password variant; the same logical workbooks unencrypted, in all four formats, must not.",
   "trusted base: the reference encoders; ciphertext is random bytes",
   "DESIGN.md §7 C20")
CHECKS["C14"] = ("exploration",
   "runtime monitoring: formula ASTs encoded to BIFF8/XLSB tokens and xlsx/ods text vs independent AST->A1 renderer (files + direct hook sweeps); exhaustive push_column sweep",
   "Formula ASTs over the statement's grammar are encoded by independent token encoders, placed in generated workbooks of all four formats and read through worksheet_formula and defined_names; the xls and xlsb token parsers are also driven directly through hooks; a failing formula is attributed to its smallest failing sub-expressions; push_column is swept over all 16384 columns.",
   "trusted base: the AST->token encoders and the A1 renderer ([MS-XLS] 2.5.198, [MS-XLSB] 2.5.97); plain sheet names; Rust number formatting on both sides",
   "DESIGN.md §7 C14")
CHECKS["C16"] = ("exploration",
   "runtime monitoring: generated workbooks of all four formats vs reference-model oracle on sheet_names / sheets_metadata / defined_names / date system",
   "Workbooks with 1..12 uniquely named sheets (escaping-relevant and non-ASCII names), every visibility x kind combination the format expresses, defined names (text or 3-D reference tokens) and both date systems are written by the reference encoders in random physical encodings and the reported metadata is compared field by field, in order.",
   "trusted base: the four reference encoders",
   "DESIGN.md §7 C16")
CHECKS["C17"] = ("exploration",
   "runtime monitoring: generated merged regions and tables vs geometry oracle through every accessor",
   "xlsx sheets with merged regions at arbitrary coordinates and tables in every header/totals configuration and placement are read through all five merged-region accessors and the table API (owned and borrowed); xls sheets with up to 1066 merged regions split over several MERGECELLS records are read through both xls accessors.",
   "trusted base: the xlsx and BIFF8 reference encoders; tables have >= 1 data row",
   "DESIGN.md §7 C17")
CHECKS["C19"] = ("exploration",
   "runtime monitoring: uniquely tagged strings of ten character classes in every storage form of every format vs string-equality oracle",
   "Strings (XML specials, spaces, tab/LF/CR, combining marks, BMP, astral, up to 32000 characters) are stored in every form each format offers (xlsx shared/inline/str x plain/rich/phonetic x four escaping layers with empty shared items interleaved; xlsb Isst/St/FmlaString; xls LABELSST/LABEL/FORMULA+STRING in 8/16-bit; ods string-value/text:p/text:s/paragraphs/spans) and must read back exactly.",
   "trusted base: the four reference encoders; empty-text cells, _xHHHH_, text:tab, text:line-break outside the statement",
   "DESIGN.md §7 C19")
CHECKS["C10"] = ("exploration",
   "runtime monitoring: exhaustive token-sequence enumeration through the classifier hook vs token-level reference classifier; generated styled workbooks in three formats",
   "Every admissible sequence of <= 3 tokens of a 90-token number-format grammar (x 3 section variants), sampled longer formats and every built-in id are classified by the real code through a hook and compared with a reference classifier that works on the generating token list; workbooks with random style tables, every numeric encoding and both date systems are read back in xlsx, xlsb and xls and the DateTime/duration/plain typing of every numeric cell is compared with the model.",
   "trusted base: the token grammar and its admissibility rules (listed in the evidence assumptions); locale-dependent built-in ids unchecked",
   "DESIGN.md §7 C10")
CHECKS["C08"] = ("exploration",
   "runtime monitoring: header-row option histories on generated sheets in four formats vs relational oracle against the default-option read",
   "The same kind of sheets (gaps between rows, data at the start / far down / near the last row) is written in all four formats; for every candidate header row in random order the range must start exactly at n iff data exists at or below n, its used cells must be exactly the default-option cells of rows >= n, the borrowed path must agree, no call may panic, and switching back must restore the default result.",
   "trusted base: the four reference encoders; header rows far above the data only when the dense range stays small",
   "DESIGN.md §7 C08")
CHECKS["C07"] = ("exploration",
   "runtime monitoring: recorded call histories checked offline (single result per key, fresh-reader reference, cross-path equalities, auto-detection, hooked state digest)",
   "Call histories with heavy repetition and interleaving over the whole Reader/ReaderRef API (incl. failing calls and header-row changes) are recorded on generated workbooks of all four formats; an offline checker requires one result per (operation, arguments, option) key, equality with a fresh reader, agreement of worksheet_range / range_ref / range_at / worksheets(), errors for unknown names, agreement of the auto-detected reader, and an unchanged digest of the reader's immutable state after every call.",
   "results compared through Debug renderings; trusted base: the reference encoders",
   "DESIGN.md §7 C07")
CHECKS["C06"] = ("fault_enumeration",
   "runtime monitoring: structure-aware fault enumeration driven through every reader API under panic / arithmetic-overflow / allocation-bound / CPU-watchdog monitors, with process deaths attributed by a supervisor; thorough adds Miri and AddressSanitizer runs of the same workload",
   "Every repository fixture and one generated feature-complete workbook per format is faulted one structural item at a time (zip parts, XML attributes / text / tags with hostile values, BIFF and XLSB records truncated to every short length, length fields, 16/32-bit fields, CONTINUE splices, formula bytes, compound-file header / FAT / mini-FAT / directory fields, truncations, MS-OVBA containers and dir-stream records); thorough adds random byte edits on top. Each faulted file is opened by its reader and through auto-detection and every read API of the property is called; a counting global allocator, a panic hook with overflow checks and debug assertions on, and a CPU watchdog decide. Deaths of a worker process (refused allocation, watchdog, signal) are attributed to the announced case. The thorough command additionally runs the sanitizer stage (scripts/c06_sanitizers.sh): about 1150 faulted tiny containers interpreted by Miri (16 processes), and the whole quick corpus re-run by an AddressSanitizer build; their counts are merged into the evidence file (coverage.sanitizers).",
   "memory / time 'in proportion to the input' is restated as explicit budgets (96 MiB + 64 x input bytes per call; 10 s / 30 s CPU per call); the enumerated single-fault space plus random multi-faults stands for 'every byte sequence'; far-cell values (dense-range blow-up, an open known finding) are driven only on the generated bases and two fixtures per format",
   "DESIGN.md §7 C06")
