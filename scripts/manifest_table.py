NOT_YET = {}
CHECKS = {
 "C05": ("exploration",
   "runtime monitoring: operation histories vs executable reference model, invariants at quiescent points",
   "Random and exhaustively enumerated (length <= 3 on a 3x3 lattice) operation histories over Range<Data|String|usize> are executed on the real code; after every operation the whole structure is compared through the public API with a BTreeMap model (bounds, rows, cells, used_cells, get/get_value/Index, headers), under a panic/overflow monitor. Held = no disagreement on the histories listed in the evidence file.",
   "trusts the 40-line executable model of the statement; preconditions documented as panicking are not generated; bounded history length (<= 12 ops) and area (<= ~100x100)",
   "DESIGN.md §7 C05"),
}
