#!/bin/bash
# Runs the pinned suite of /repo (guard OFF) and checks that the 110 baseline tests pass
# (tests::mul_rk is an always-fail in BASELINE.json: its fixture is emptied in this sandbox).
cd "${1:-/repo}" || exit 2
out=$(CARGO_NET_OFFLINE=true cargo test --workspace --no-fail-fast --offline --lib --tests 2>&1)
pass=$(echo "$out" | grep -cE '^test .* \.\.\. ok$')
fail=$(echo "$out" | grep -E '^test .* \.\.\. FAILED$' | grep -v 'test mul_rk ' )
echo "passed=$pass"
if [ -n "$fail" ]; then echo "$fail"; exit 1; fi
if [ "$pass" -lt 110 ]; then echo "$out" | tail -30; exit 1; fi
exit 0
